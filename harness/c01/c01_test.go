package c01

import (
	"strings"
	"testing"

	"pgregory.net/rapid"
	"verif/gen"
	"verif/hx"
	"verif/model"
	"verif/ref"
)

const rule = "case = (JSON-model document, core-fragment expression generated type-directed against that document). " +
	"oracle: reference interpreter written from the operator documentation (ref.Eval) vs yq in-process (-o=json -I0): both error, or equal ordered result lists. " +
	"non-trivial = the reference gives a verdict (not Unspecified), the expression has >= 2 operator applications; distinct by (expression text, document text) Sub int_spellings: `A op B` (op in + - * %) with the operands spelled in decimal or hex in the expression, or in any integer spelling YAML reads (hex, octal, binary, sign before the prefix, underscores) in the document; oracle = math/big on the values; the YAML spelling of the result must read back as the same integer; non-trivial = an alternate spelling."

func TestMain(m *testing.M) {
	hx.Main(m, "C01", rule,
		"the reference speaks only where the documentation defines an answer; Unspecified zones are listed in DESIGN.md 3.3 and counted under label 'unspecified'",
		"results are observed through yq's JSON encoder and compared as values (1 and 1.0 equal; floats with relative tolerance 1e-12)")
}

// Case is one (document, expression) pair.
type Case struct {
	Doc  string `json:"doc"`
	Expr string `json:"expr"`
	AST  *ref.E `json:"ast"`
	// All: the one document is evaluated with eval-all (the list of current nodes starts as the
	// same one root, so the semantics defines the same results)
	All bool `json:"all,omitempty"`
}

func genCase(t *rapid.T) Case {
	depth := 3
	width := 4
	ed := 3
	if hx.Tier == "thorough" {
		depth, width, ed = rapid.IntRange(2, 4).Draw(t, "dd"), rapid.IntRange(3, 6).Draw(t, "dw"), rapid.IntRange(2, 5).Draw(t, "ed")
	}
	doc := gen.JSONDoc(t, gen.DocOpts{Depth: depth, Width: width})
	e := gen.CoreExpr(t, doc, ed)
	all := rapid.IntRange(0, 3).Draw(t, "all") == 0
	return Case{Doc: doc.JSON(), Expr: ref.Print(e), AST: e, All: all}
}

func show(vs []*model.Value) string {
	var p []string
	for _, v := range vs {
		p = append(p, v.JSON())
	}
	return strings.Join(p, " ")
}

func opLabels(e *ref.E) []string {
	seen := map[string]bool{}
	var out []string
	e.Walk(func(x *ref.E) {
		k := "op:" + x.Op
		if x.Op == "bin" {
			k = "op:" + x.S
			if len(x.A) == 2 && x.A[1].Op == "lit" && len(x.A[1].Lit) >= 16 && strings.Contains("< <= > >=", x.S) && !seen["cmp_beyond_2^53"] {
				seen["cmp_beyond_2^53"] = true
				out = append(out, "cmp_beyond_2^53")
			}
		}
		if !seen[k] {
			seen[k] = true
			out = append(out, k)
		}
	})
	return out
}

func check(c Case) hx.Verdict {
	doc, err := model.ParseJSON(c.Doc)
	if err != nil {
		return hx.Disc("bad_doc")
	}
	ref.Misses = 0
	ref.MultiCtx = 0
	want, rerr := ref.Eval(c.AST, []*model.Value{doc}, ref.Env{})
	if c.All && ref.MultiCtx > 0 {
		// document roots that are evaluated together are paired and collected across the
		// list of current nodes: the per-node semantics of the statement is that of eval
		return hx.Unspec("eval_all_several_current_nodes")
	}
	// a divergence in a case whose reference evaluation read something that is not
	// there is attributed to the known read-autovivification finding
	sig := ""
	if ref.Misses > 0 {
		sig = "deviant:read-autovivify"
	}
	if ref.IsUnspec(rerr) {
		why := rerr.(*ref.Unspecified).Why
		if i := strings.IndexAny(why, "0123456789"); i > 0 {
			why = why[:i]
		}
		return hx.Unspec("why:" + why)
	}
	got, o := hx.JSONResultsAll(c.Expr, c.Doc, "json", c.All)
	if o.Crashed() {
		return hx.Bad("panic-site:"+o.PanicSite, "panic %s: expr=%s doc=%s", o.Panic, c.Expr, c.Doc)
	}
	if o.Timeout {
		return hx.Unspec("slow")
	}
	labels := opLabels(c.AST)
	if c.All {
		labels = append(labels, "eval_all")
	}
	if rerr != nil {
		labels = append(labels, "expected_error")
		if o.Err == "" {
			return hx.Bad(sig, "reference defines an error (%v) but yq succeeded with [%s]: expr=%s doc=%s", rerr, strings.Join(got, " "), c.Expr, c.Doc)
		}
		return hx.OK(c.AST.Ops() >= 2, c.Expr+"\x00"+c.Doc, labels...)
	}
	if o.Err != "" {
		if strings.HasPrefix(o.Err, "parse: ") {
			return hx.Bad("", "well-formed expression rejected by the parser (%s): expr=%s", o.Err, c.Expr)
		}
		return hx.Bad(sig, "yq reported an error (%s) where the reference defines results [%s]: expr=%s doc=%s", o.Err, show(want), c.Expr, c.Doc)
	}
	if len(got) != len(want) {
		return hx.Bad(sig, "result count differs: yq %d [%s] vs reference %d [%s]: expr=%s doc=%s", len(got), strings.Join(got, " "), len(want), show(want), c.Expr, c.Doc)
	}
	for i := range got {
		gv, err := model.ParseJSON(got[i])
		if err != nil {
			return hx.Bad("", "yq result %d is not JSON (%v): %q expr=%s doc=%s", i, err, got[i], c.Expr, c.Doc)
		}
		if !model.EqualTol(gv, want[i], 1e-12) {
			return hx.Bad(sig, "result %d differs: yq %s vs reference %s (all: yq [%s] ref [%s]): expr=%s doc=%s", i, got[i], want[i].JSON(), strings.Join(got, " "), show(want), c.Expr, c.Doc)
		}
	}
	if ref.Misses > 0 {
		labels = append(labels, "has_miss")
	}
	if len(want) > 1 {
		labels = append(labels, "multi_result")
	}
	if len(want) == 0 {
		labels = append(labels, "empty_result")
	}
	return hx.OK(c.AST.Ops() >= 2, c.Expr+"\x00"+c.Doc, labels...)
}

func TestProp(t *testing.T) {
	hx.RunProperty(t, hx.NewSub("core", 20000, 150000, genCase, check), hx.NewSub("int_spellings", 3000, 20000, genSpell, checkSpell))
}
