package c01

import (
	"fmt"
	"math/big"
	"strings"

	"pgregory.net/rapid"
	"verif/hx"
	"verif/model"
)

// Sub "int_spellings": integer arithmetic is about values, not spellings. The operands are written in decimal or in
// hex in the expression, or stand in the document in any spelling YAML reads as an integer (hex, octal, binary, a
// sign before the prefix, underscores); the result, read as a JSON number, is the exact integer result. The oracle is
// math/big; cases whose exact result leaves int64 are not judged (wrap-around is outside the statement).

type SpellCase struct {
	A, B  int64
	SA    string `json:"sa"` // spellings
	SB    string `json:"sb"`
	Op    string `json:"op"`
	InDoc bool   `json:"in_doc"`
}

func spell(t *rapid.T, v int64, inDoc bool, label string) string {
	mag, sign := v, ""
	if v < 0 {
		mag, sign = -v, "-"
	}
	forms := []string{"%d"}
	if inDoc {
		forms = append(forms, "0x%X", "0x%x", "0o%o", "0b%b")
	} else if v >= 0 {
		forms = append(forms, "0x%X", "0x%x") // the expression lexer knows decimal and hex
	}
	f := rapid.SampledFrom(forms).Draw(t, label)
	s := sign + fmt.Sprintf(f, mag)
	if inDoc && f == "%d" && mag >= 1000 && rapid.Bool().Draw(t, label+"us") {
		s = sign + fmt.Sprintf("%d_%03d", mag/1000, mag%1000)
	}
	return s
}

func genSpell(t *rapid.T) SpellCase {
	c := SpellCase{Op: rapid.SampledFrom([]string{"+", "-", "*", "%", "-", "*"}).Draw(t, "op"), InDoc: rapid.Bool().Draw(t, "indoc")}
	small := rapid.SampledFrom([]int64{0, 1, 2, 3, 5, 7, 10, 16, 31, 255, 1000, 4096, 65535, 1000000, -1, -2, -16, -255})
	c.A, c.B = small.Draw(t, "a"), small.Draw(t, "b")
	c.SA, c.SB = spell(t, c.A, c.InDoc, "sa"), spell(t, c.B, c.InDoc, "sb")
	return c
}

func checkSpell(c SpellCase) hx.Verdict {
	a, b := big.NewInt(c.A), big.NewInt(c.B)
	want := new(big.Int)
	switch c.Op {
	case "+":
		want.Add(a, b)
	case "-":
		want.Sub(a, b)
	case "*":
		want.Mul(a, b)
	case "%":
		if c.B == 0 {
			return hx.Unspec("modulo_by_zero")
		}
		want.Rem(a, b) // truncated, like Go and jq
	}
	if !want.IsInt64() {
		return hx.Unspec("beyond_int64")
	}
	expr, doc := fmt.Sprintf("%s %s %s", c.SA, c.Op, c.SB), "null\n"
	if c.InDoc {
		expr, doc = ".a "+c.Op+" .b", fmt.Sprintf("a: %s\nb: %s\n", c.SA, c.SB)
	} else if strings.HasPrefix(c.SB, "-") {
		expr = fmt.Sprintf("%s %s (%s)", c.SA, c.Op, c.SB)
	}
	r, o := hx.JSONResults(expr, doc, "yaml")
	if o.Crashed() {
		return hx.Bad("panic-site:"+o.PanicSite, "panic %s: %s on %q", o.Panic, expr, doc)
	}
	if o.Err != "" {
		return hx.Bad("", "`%s` on %q fails (%s); the exact result is %s", expr, doc, o.Err, want)
	}
	if len(r) != 1 {
		return hx.Bad("", "`%s` on %q gives %d results", expr, doc, len(r))
	}
	got, err := model.ParseJSON(r[0])
	if err != nil || got.K != model.Int || got.I.Cmp(want) != 0 {
		return hx.Bad("", "`%s` on %q gives %s as JSON; the exact result is %s", expr, doc, r[0], want)
	}
	// the YAML spelling of the result reads back as the same integer
	y := hx.Run(expr, doc, hx.Opts{})
	if y.OK() {
		back, o2 := hx.JSONResults(".", y.Out, "yaml")
		if o2.OK() && len(back) == 1 && back[0] != r[0] {
			return hx.Bad("", "`%s` on %q prints %q, which reads back as %s, not %s", expr, doc, strings.TrimSpace(y.Out), back[0], r[0])
		}
	}
	alt := strings.ContainsAny(c.SA+c.SB, "xob_")
	return hx.OK(alt, expr+doc, fmt.Sprintf("in_doc:%v", c.InDoc), fmt.Sprintf("negative_result:%v", want.Sign() < 0))
}
