package c02

import (
	"fmt"
	"strings"
	"testing"

	"pgregory.net/rapid"
	"verif/gen"
	"verif/hx"
	"verif/model"
	"verif/ref"
)

const rule = "case = (alias-free document, path p: existing keys / indices (also negative), paths to be auto-created (1-3 new steps, keys and indices, padding), splats and select-filtered multi-matches; value v: scalar, container or a read of another path; form: `p = v`, `p |= f`, `p op= e`). " +
	"oracle: a reference set-path model gives the expected document (put + frame in one comparison: every other path unchanged, created spine and null padding exact); plus the laws through yq itself: put-get (`p = v | [p]`), get-put (`p = p`), put-put (`p = v1 | p = v2` == `p = v2`), no aliasing of the RHS (`.zz = q | .zz... = x` leaves q alone). " +
	"non-trivial = at least one match or an auto-created path, the document has >= 3 nodes outside the matches and the result differs from the input (except get-put); distinct by (expr, doc)"

func TestMain(m *testing.M) {
	hx.Main(m, "C02", rule,
		"paths whose existing prefix is type-incompatible (key into a scalar or sequence, index into a map or scalar) are not generated",
		"multi-result right-hand sides of plain `=` and nested match sets under `|=` are not judged",
		"update expressions f / e come from small typed sets whose reference semantics is documented (numbers, strings, arrays); Unspecified reference results are skipped")
}

type Step struct {
	K string `json:"k,omitempty"`
	I int    `json:"i,omitempty"`
	X bool   `json:"x,omitempty"` // true = index step
}

type Case struct {
	Doc   string   `json:"doc"`
	Form  string   `json:"form"` // assign | update | compound | alias
	Path  []Step   `json:"path,omitempty"`
	LHS   *ref.E   `json:"lhs,omitempty"` // multi-match selection (no creation)
	V     string   `json:"v,omitempty"`   // literal value (JSON)
	V2    string   `json:"v2,omitempty"`
	VPath []Step   `json:"vpath,omitempty"` // or: read of another path
	F     *ref.E   `json:"f,omitempty"`     // update expression for |=
	Op    string   `json:"op,omitempty"`    // + - * for compound
	Idx   []int    `json:"idx,omitempty"`   // form multiidx: p = Path + .[i, j, ...]
	Label []string `json:"label,omitempty"`
}

func ip(i int) *int { return &i }

func pathText(p []Step) string {
	if len(p) == 0 {
		return "."
	}
	var b strings.Builder
	for _, s := range p {
		if s.X {
			fmt.Fprintf(&b, ".[%d]", s.I)
		} else {
			b.WriteString(".[" + ref.QuoteYq(s.K) + "]")
		}
	}
	return b.String()
}

func litText(js string) string {
	v, err := model.ParseJSON(js)
	if err != nil {
		return js
	}
	return valueText(v)
}

// valueText renders a model value as a yq literal expression.
func valueText(v *model.Value) string {
	switch v.K {
	case model.Str:
		return ref.QuoteYq(v.S)
	case model.Seq:
		var p []string
		for _, e := range v.Elem {
			p = append(p, valueText(e))
		}
		return "[" + strings.Join(p, ", ") + "]"
	case model.Map:
		var p []string
		for i, k := range v.Keys {
			p = append(p, ref.QuoteYq(k)+": "+valueText(v.Vals[i]))
		}
		return "{" + strings.Join(p, ", ") + "}"
	}
	return v.JSON()
}

// lookup follows concrete steps; negative indices count from the end.
func lookup(v *model.Value, p []Step) (*model.Value, bool) {
	for _, s := range p {
		if s.X {
			if v.K != model.Seq {
				return nil, false
			}
			i := s.I
			if i < 0 {
				i += len(v.Elem)
			}
			if i < 0 || i >= len(v.Elem) {
				return nil, false
			}
			v = v.Elem[i]
		} else {
			if v.K != model.Map {
				return nil, false
			}
			x, ok := v.Get(s.K)
			if !ok {
				return nil, false
			}
			v = x
		}
	}
	return v, true
}

// lookupStrict reads a path the way a read-only traversal does: a missing key or index, a step into a scalar and an
// index into a map read as nothing (nil, true); a key applied to a sequence fails.
func lookupStrict(v *model.Value, p []Step) (*model.Value, bool) {
	for _, s := range p {
		if v == nil || v.IsScalar() {
			return nil, true
		}
		if s.X {
			if v.K != model.Seq {
				return nil, true
			}
			i := s.I
			if i < 0 {
				i += len(v.Elem)
			}
			if i < 0 || i >= len(v.Elem) {
				return nil, true
			}
			v = v.Elem[i]
		} else {
			if v.K == model.Seq {
				return nil, false
			}
			x, ok := v.Get(s.K)
			if !ok {
				return nil, true
			}
			v = x
		}
	}
	return v, true
}

// set is the reference set-path: creates maps/sequences, pads with null; returns false when the path is type-incompatible.
func set(root *model.Value, p []Step, val *model.Value) (*model.Value, bool) {
	if len(p) == 0 {
		return val, true
	}
	s := p[0]
	if root.K == model.Null {
		if s.X {
			root = model.NewSeq()
		} else {
			root = model.NewMap()
		}
	}
	if s.X {
		if root.K != model.Seq {
			return nil, false
		}
		i := s.I
		if i < 0 {
			i += len(root.Elem)
			if i < 0 {
				return nil, false
			}
		}
		for len(root.Elem) <= i {
			root.Elem = append(root.Elem, model.NewNull())
		}
		nv, ok := set(root.Elem[i], p[1:], val)
		if !ok {
			return nil, false
		}
		root.Elem[i] = nv
		return root, true
	}
	if root.K != model.Map {
		return nil, false
	}
	cur, ok := root.Get(s.K)
	if !ok {
		cur = model.NewNull()
	}
	nv, ok2 := set(cur, p[1:], val)
	if !ok2 {
		return nil, false
	}
	root.Set(s.K, nv)
	return root, true
}

func safeKey(k string) bool { return gen.SafeStr(k) && k != "" }

// allPaths lists concrete paths to every node.
func allPaths(v *model.Value) (paths [][]Step, nodes []*model.Value) {
	var walk func(x *model.Value, p []Step)
	walk = func(x *model.Value, p []Step) {
		paths = append(paths, append([]Step{}, p...))
		nodes = append(nodes, x)
		switch x.K {
		case model.Seq:
			for i, e := range x.Elem {
				walk(e, append(p, Step{I: i, X: true}))
			}
		case model.Map:
			for i, e := range x.Vals {
				if safeKey(x.Keys[i]) {
					walk(e, append(p, Step{K: x.Keys[i]}))
				}
			}
		}
	}
	walk(v, nil)
	return
}

func genValue(t *rapid.T) *model.Value {
	switch rapid.IntRange(0, 9).Draw(t, "vk") {
	case 0:
		return model.NewNull()
	case 1:
		return model.NewBool(rapid.Bool().Draw(t, "b"))
	case 2, 3:
		return model.NewInt(int64(rapid.IntRange(-5, 500).Draw(t, "i")))
	case 4:
		return model.NewFloat(rapid.SampledFrom([]float64{0.5, 1.5, -2.25}).Draw(t, "f"))
	case 5, 6:
		return model.NewStr(rapid.SampledFrom([]string{"new", "x", "", "a b", "true", "1", "null", "é"}).Draw(t, "s"))
	case 7:
		return model.NewSeq(model.NewInt(1), model.NewStr("two"))
	case 8:
		return model.NewMap().Set("x", model.NewInt(1)).Set("y", model.NewSeq())
	default:
		if rapid.Bool().Draw(t, "ec") {
			return model.NewSeq()
		}
		return model.NewMap()
	}
}

func genCase(t *rapid.T) Case {
	doc := gen.JSONDoc(t, gen.DocOpts{Depth: 3, Width: 4, SimpleStr: true})
	c := Case{Doc: doc.JSON()}
	paths, nodes := allPaths(doc)
	form := rapid.SampledFrom([]string{"assign", "assign", "assign", "update", "update", "compound", "alias", "multiidx"}).Draw(t, "form")
	c.Form = form
	pick := rapid.IntRange(0, len(paths)-1).Draw(t, "pi")
	p, node := paths[pick], nodes[pick]
	if form == "multiidx" {
		// several indices of one sequence in one traversal, some past the end (padding), some negative
		var seqs []int
		for i, n := range nodes {
			if n.K == model.Seq {
				seqs = append(seqs, i)
			}
		}
		if len(seqs) == 0 {
			form, c.Form = "assign", "assign"
		} else {
			pick = rapid.SampledFrom(seqs).Draw(t, "sq")
			p, node = paths[pick], nodes[pick]
			n := len(node.Elem)
			for i := rapid.IntRange(2, 3).Draw(t, "nidx"); i > 0; i-- {
				c.Idx = append(c.Idx, rapid.IntRange(-n, n+3).Draw(t, "mi"))
			}
			c.Path = p
			c.V = genValue(t).JSON()
			if rapid.Bool().Draw(t, "mupd") {
				c.F = &ref.E{Op: "collect", A: []*ref.E{{Op: "self"}}}
			}
			c.Label = append(c.Label, "multi_index")
			return c
		}
	}

	if (form == "update" || form == "assign") && rapid.IntRange(0, 3).Draw(t, "multi") == 0 && (node.K == model.Seq || node.K == model.Map) {
		// multi-match: splat, optionally filtered
		var base *ref.E = &ref.E{Op: "self"}
		for _, s := range p {
			var st *ref.E
			if s.X {
				st = &ref.E{Op: "idx", I: ip(s.I)}
			} else {
				st = &ref.E{Op: "key", S: s.K, J: ip(1)}
			}
			base = gen.Pipe(base, st)
		}
		lhs := gen.Pipe(base, &ref.E{Op: "splat"})
		if rapid.Bool().Draw(t, "filtered") {
			var sample *model.Value
			if node.K == model.Seq && len(node.Elem) > 0 {
				sample = node.Elem[rapid.IntRange(0, len(node.Elem)-1).Draw(t, "ms")]
			} else if node.K == model.Map && len(node.Vals) > 0 {
				sample = node.Vals[rapid.IntRange(0, len(node.Vals)-1).Draw(t, "ms")]
			}
			lhs = gen.Pipe(lhs, &ref.E{Op: "select", A: []*ref.E{gen.Pred(t, sample)}})
			c.Label = append(c.Label, "select_match")
		}
		c.LHS = lhs
		c.Label = append(c.Label, "multi_match")
	} else {
		// single concrete path: maybe negative index, maybe extended by steps to be created
		if len(p) > 0 && p[len(p)-1].X && rapid.IntRange(0, 2).Draw(t, "neg") == 0 {
			parent, _ := lookup(doc, p[:len(p)-1])
			p = append(append([]Step{}, p[:len(p)-1]...), Step{I: p[len(p)-1].I - len(parent.Elem), X: true})
			c.Label = append(c.Label, "neg_index")
		}
		if rapid.IntRange(0, 2).Draw(t, "create") == 0 && (node.K == model.Null || node.K == model.Map || node.K == model.Seq) && form != "compound" {
			cur := node
			n := rapid.IntRange(1, 3).Draw(t, "nnew")
			for i := 0; i < n; i++ {
				var st Step
				switch {
				case cur != nil && cur.K == model.Map:
					st = Step{K: rapid.SampledFrom([]string{"n1", "n2", "zz"}).Draw(t, "nk")}
				case cur != nil && cur.K == model.Seq:
					st = Step{I: len(cur.Elem) + rapid.IntRange(0, 2).Draw(t, "pad"), X: true}
				default:
					if rapid.Bool().Draw(t, "nkind") {
						st = Step{K: rapid.SampledFrom([]string{"n1", "n2"}).Draw(t, "nk")}
					} else {
						st = Step{I: rapid.IntRange(0, 2).Draw(t, "ni"), X: true}
					}
				}
				p = append(append([]Step{}, p...), st)
				cur = nil
			}
			c.Label = append(c.Label, "autocreate")
		}
		c.Path = p
	}
	switch form {
	case "assign", "alias":
		if rapid.IntRange(0, 3).Draw(t, "readrhs") == 0 {
			q := rapid.IntRange(0, len(paths)-1).Draw(t, "qi")
			c.VPath = paths[q]
			c.Label = append(c.Label, "rhs_reads_doc")
		} else {
			c.V = genValue(t).JSON()
		}
		c.V2 = genValue(t).JSON()
	case "update":
		c.F = rapid.SampledFrom([]*ref.E{
			{Op: "bin", S: "+", A: []*ref.E{{Op: "self"}, {Op: "lit", Lit: "1"}}},
			{Op: "bin", S: "*", A: []*ref.E{{Op: "self"}, {Op: "lit", Lit: "2"}}},
			{Op: "length"},
			{Op: "collect", A: []*ref.E{{Op: "self"}}},
			{Op: "union", A: []*ref.E{{Op: "collect", A: []*ref.E{{Op: "self"}}}, {Op: "lit", Lit: "99"}}},
			{Op: "bin", S: "+", A: []*ref.E{{Op: "self"}, {Op: "lit", Lit: `"s"`}}},
			{Op: "object", KS: []string{"w"}, A: []*ref.E{{Op: "self"}}},
			{Op: "select", A: []*ref.E{{Op: "lit", Lit: "false"}}},
			{Op: "lit", Lit: `"const"`},
			{Op: "bin", S: "//", A: []*ref.E{{Op: "self"}, {Op: "lit", Lit: `"dflt"`}}},
			{Op: "pipe", A: []*ref.E{{Op: "bin", S: "+", A: []*ref.E{{Op: "self"}, {Op: "collect", A: []*ref.E{{Op: "lit", Lit: "7"}}}}}, {Op: "reverse"}}},
		}).Draw(t, "f")
	case "compound":
		c.Op = rapid.SampledFrom([]string{"+", "-", "*"}).Draw(t, "op")
		c.V = rapid.SampledFrom([]string{"1", "2", "-3", "1.5", `"s"`, `[7]`, `[1, 2]`, `{"zq": 1}`}).Draw(t, "e")
	}
	return c
}

type match struct {
	p []Step
	v *model.Value
}

// matches computes M (concrete paths of the nodes p selects in the original document).
func matches(c Case, doc *model.Value) ([]match, error) {
	if c.LHS == nil {
		// resolve negative indices against the original document
		norm := append([]Step{}, c.Path...)
		cur := doc
		for i, st := range norm {
			if cur == nil {
				break
			}
			if st.X && st.I < 0 && cur.K == model.Seq && st.I+len(cur.Elem) >= 0 {
				norm[i].I = st.I + len(cur.Elem)
			}
			cur, _ = lookup(cur, norm[i:i+1])
		}
		v, ok := lookup(doc, norm)
		if !ok {
			return []match{{norm, nil}}, nil // to be created
		}
		return []match{{norm, v}}, nil
	}
	doc.Link()
	ref.Misses = 0
	r, err := ref.Eval(c.LHS, []*model.Value{doc}, ref.Env{})
	if err != nil {
		return nil, err
	}
	var out []match
	for _, n := range r {
		var p []Step
		for x := n; x.Parent != nil; x = x.Parent {
			if x.Parent.K == model.Seq {
				p = append([]Step{{I: x.PIdx, X: true}}, p...)
			} else {
				p = append([]Step{{K: x.PKey}}, p...)
			}
		}
		if got, ok := lookup(doc, p); !ok || got != n {
			return nil, &ref.Unspecified{Why: "selection yields a node that is not in the document"}
		}
		out = append(out, match{p, n})
	}
	return out, nil
}

func lhsText(c Case) string {
	if c.LHS != nil {
		return "(" + ref.Print(c.LHS) + ")"
	}
	return pathText(c.Path)
}

func run1(expr, doc string) (*model.Value, hx.Outcome) {
	r, o := hx.JSONResults(expr, doc, "json")
	if !o.OK() {
		return nil, o
	}
	if len(r) != 1 {
		o.Err = fmt.Sprintf("%d results", len(r))
		return nil, o
	}
	v, err := model.ParseJSON(r[0])
	if err != nil {
		o.Err = "not json"
		return nil, o
	}
	return v, o
}

func crash(o hx.Outcome, expr, doc string) *hx.Verdict {
	if o.Crashed() {
		v := hx.Bad("panic-site:"+o.PanicSite, "panic %s: expr=%s doc=%s", o.Panic, expr, doc)
		return &v
	}
	return nil
}

func check(c Case) hx.Verdict {
	doc, err := model.ParseJSON(c.Doc)
	if err != nil {
		return hx.Disc("bad_doc")
	}
	orig := doc.Copy()
	if c.Form == "multiidx" {
		return checkMultiIdx(c, orig)
	}
	M, err := matches(c, doc)
	if err != nil {
		return hx.Unspec("lhs_" + map[bool]string{true: "unspecified", false: "errors"}[ref.IsUnspec(err)])
	}
	// nested match sets are not judged
	for i := range M {
		for j := range M {
			if i != j && len(M[i].p) < len(M[j].p) {
				pre := true
				for k := range M[i].p {
					if M[i].p[k] != M[j].p[k] {
						pre = false
					}
				}
				if pre {
					return hx.Unspec("nested_matches")
				}
			}
		}
	}
	lhs := lhsText(c)
	labels := append([]string{"form:" + c.Form}, c.Label...)
	outside := orig.Size()
	for _, m := range M {
		if m.v != nil {
			outside -= m.v.Size()
		}
	}

	// the new value of each match
	newVals := make([]*model.Value, len(M))
	var expr string
	switch c.Form {
	case "assign", "alias":
		var v *model.Value
		rhs := ""
		if c.VPath != nil {
			x, ok := lookup(orig, c.VPath)
			if !ok {
				return hx.Disc("vpath")
			}
			v = x.Copy()
			rhs = pathText(c.VPath)
		} else {
			v, _ = model.ParseJSON(c.V)
			rhs = litText(c.V)
		}
		for i := range M {
			newVals[i] = v.Copy()
		}
		expr = lhs + " = " + rhs
		if c.Form == "alias" {
			// .zz = q | .zz<step> = x must leave q alone
			if c.VPath == nil || len(c.VPath) == 0 || doc.K != model.Map {
				return hx.Disc("alias_form_needs_a_read")
			}
			src, _ := lookup(orig, c.VPath)
			if src.K != model.Map && src.K != model.Seq {
				return hx.Disc("alias_form_needs_a_container")
			}
			inner := `.["zz"].["x"] = 5`
			if src.K == model.Seq {
				inner = `.["zz"].[0] = 5`
			}
			e2 := `.["zz"] = ` + pathText(c.VPath) + " | " + inner
			got, o := run1(e2, c.Doc)
			if v := crash(o, e2, c.Doc); v != nil {
				return *v
			}
			if got == nil {
				return hx.Bad("", "assignment failed (%s): expr=%s doc=%s", o.Err, e2, c.Doc)
			}
			exp := orig.Copy()
			cp := src.Copy()
			if src.K == model.Seq {
				cp, _ = set(cp, []Step{{I: 0, X: true}}, model.NewInt(5))
			} else {
				cp, _ = set(cp, []Step{{K: "x"}}, model.NewInt(5))
			}
			exp, _ = set(exp, []Step{{K: "zz"}}, cp)
			if !model.Equal(got, exp) {
				return hx.Bad("", "editing a value assigned from %s changed something else (RHS nodes shared?): got %s expected %s: expr=%s doc=%s", pathText(c.VPath), got.JSON(), exp.JSON(), e2, c.Doc)
			}
			return hx.OK(true, e2+"\x00"+c.Doc, append(labels, "aliasing")...)
		}
	case "update":
		for i, m := range M {
			cur := m.v
			if cur == nil {
				cur = model.NewNull()
			}
			ref.Misses = 0
			r, err := ref.Eval(c.F, []*model.Value{cur}, ref.Env{})
			if err != nil {
				if ref.IsUnspec(err) {
					return hx.Unspec("f_unspecified")
				}
				return hx.Unspec("f_errors")
			}
			if len(r) == 0 {
				if m.v == nil {
					return hx.Unspec("empty_update_of_created_path")
				}
				newVals[i] = m.v.Copy()
			} else {
				newVals[i] = r[0].Copy()
			}
		}
		expr = lhs + " |= (" + ref.Print(c.F) + ")"
	case "compound":
		e, _ := model.ParseJSON(c.V)
		for i, m := range M {
			if m.v == nil {
				return hx.Disc("compound_on_missing")
			}
			ref.Misses = 0
			r, err := ref.Eval(&ref.E{Op: "bin", S: c.Op, A: []*ref.E{{Op: "self"}, {Op: "lit", Lit: e.JSON()}}}, []*model.Value{m.v}, ref.Env{})
			if err != nil || len(r) != 1 {
				if err != nil && !ref.IsUnspec(err) {
					return hx.Unspec("op_errors")
				}
				return hx.Unspec("op_unspecified")
			}
			newVals[i] = r[0].Copy()
		}
		expr = lhs + " " + c.Op + "= " + litText(c.V)
	}

	// expected document: reference set-path applied for every match
	exp := orig.Copy()
	for i, m := range M {
		var ok bool
		exp, ok = set(exp, m.p, newVals[i])
		if !ok {
			return hx.Disc("incompatible_prefix")
		}
	}
	got, o := run1(expr, c.Doc)
	if v := crash(o, expr, c.Doc); v != nil {
		return *v
	}
	// known finding: the right-hand side is read after the left-hand side's missing spine was created, and
	// again after each earlier match was written; it only shows when the region v reads overlaps a path that
	// is written (as another value, or as a failure of the second read: `.[] = .[0].a` re-reads .[0].a after
	// .[0] has become the value)
	overlapSig := func() string {
		if c.VPath == nil {
			return ""
		}
		for _, m := range M {
			n := len(m.p)
			if len(c.VPath) < n {
				n = len(c.VPath)
			}
			overlap := true
			for k := 0; k < n; k++ {
				if m.p[k] != c.VPath[k] {
					overlap = false
				}
			}
			if overlap {
				return "deviant:rhs-read-after-write"
			}
		}
		return ""
	}
	// the open finding as a reference of its own: the missing spine of every match is created first, then every
	// match in turn receives v as the document reads at that moment. A result (or a failure) that this reading
	// explains is attributed to the finding; anything else in the same region is a violation.
	deviant := func(skipNothing bool) (doc *model.Value, failed bool) {
		if c.VPath == nil {
			return nil, false
		}
		dev := orig.Copy()
		for _, m := range M {
			if _, ok := lookup(dev, m.p); !ok {
				var ok2 bool
				if dev, ok2 = set(dev, m.p, model.NewNull()); !ok2 {
					return nil, true
				}
			}
		}
		for _, m := range M {
			val, ok := lookupStrict(dev, c.VPath)
			if !ok {
				return nil, true // reading through a node that an earlier write turned into another kind
			}
			if val == nil {
				if skipNothing {
					continue // the second read finds nothing (the node it went through is gone): no value, no write
				}
				val = model.NewNull()
			}
			var ok2 bool
			if dev, ok2 = set(dev, m.p, val.Copy()); !ok2 {
				return nil, true
			}
		}
		return dev, false
	}
	if got == nil {
		sig := ""
		if _, f := deviant(false); f && overlapSig() != "" {
			sig = "deviant:rhs-read-after-write"
		}
		return hx.Bad(sig, "assignment failed (%s) where the laws define a result: expr=%s doc=%s", o.Err, expr, c.Doc)
	}
	if !model.EqualTol(got, exp, 1e-12) {
		sig := ""
		for _, skip := range []bool{false, true} {
			if dev, f := deviant(skip); !f && dev != nil && model.EqualTol(got, dev, 1e-12) {
				sig = "deviant:rhs-read-after-write"
			}
		}
		return hx.Bad(sig, "put/frame: result %s differs from expected %s: expr=%s doc=%s", got.JSON(), exp.JSON(), expr, c.Doc)
	}
	if c.Form == "assign" && len(M) > 0 {
		// put-get through yq
		e2 := expr + " | [" + lhs + "]"
		pg, o2 := run1(e2, c.Doc)
		if v := crash(o2, e2, c.Doc); v != nil {
			return *v
		}
		if c.LHS == nil {
			want := model.NewSeq(newVals[0])
			if pg == nil || !model.EqualTol(pg, want, 1e-12) {
				return hx.Bad("", "put-get: reading p after `p = v` gives %v, expected %s: expr=%s doc=%s", js(pg), want.JSON(), e2, c.Doc)
			}
		}
		// put-put
		if c.VPath == nil {
			v2, _ := model.ParseJSON(c.V2)
			e3 := lhs + " = " + litText(c.V) + " | " + lhs + " = " + litText(c.V2)
			e4 := lhs + " = " + litText(c.V2)
			a, oa := run1(e3, c.Doc)
			b, ob := run1(e4, c.Doc)
			if v := crash(oa, e3, c.Doc); v != nil {
				return *v
			}
			_ = v2
			if c.LHS == nil && (a == nil || b == nil || !model.Equal(a, b)) {
				return hx.Bad("", "put-put: `%s` gives %v but `%s` gives %v (errors %q / %q): doc=%s", e3, js(a), e4, js(b), oa.Err, ob.Err, c.Doc)
			}
		}
		// the same assignment inside a construct that hands the document on: a binding (`v as $x | p = $x`),
		// with(.; ...), a binding of something else in front (`.. as $y | p = v` runs the body once per binding)
		if c.VPath == nil {
			for _, e8 := range []string{litText(c.V) + " as $x | " + lhs + " = $x", "with(.; " + lhs + " = " + litText(c.V) + ")", "1 as $y | " + lhs + " = " + litText(c.V), `"k" as $k | ` + lhs + " = " + litText(c.V) + " | ."} {
				g, og := run1(e8, c.Doc)
				if v := crash(og, e8, c.Doc); v != nil {
					return *v
				}
				if g == nil || !model.EqualTol(g, got, 1e-12) {
					return hx.Bad("", "`%s` gives %v (err %q) but `%s` gives %s: doc=%s", e8, js(g), og.Err, expr, got.JSON(), c.Doc)
				}
			}
			labels = append(labels, "assignment_under_binding")
		}
		// a container replaced by a scalar is gone: creating a path through it afterwards starts from nothing
		if c.LHS == nil && len(M[0].p) > 0 && M[0].v != nil && (M[0].v.K == model.Map || M[0].v.K == model.Seq) && len(M[0].v.Elem)+len(M[0].v.Keys) > 0 {
			step, st := `.["nk"]`, Step{K: "nk"}
			if M[0].v.K == model.Seq {
				step, st = ".[0]", Step{I: 0, X: true}
			}
			e6 := lhs + " = null | " + lhs + step + " = 5"
			g, og := run1(e6, c.Doc)
			if v := crash(og, e6, c.Doc); v != nil {
				return *v
			}
			want := orig.Copy()
			want, _ = set(want, M[0].p, model.NewNull())
			want, _ = set(want, append(append([]Step{}, M[0].p...), st), model.NewInt(5))
			if g == nil || !model.Equal(g, want) {
				return hx.Bad("", "a replaced container came back: `%s` gives %v, expected %s (err %q): doc=%s", e6, js(g), want.JSON(), og.Err, c.Doc)
			}
			labels = append(labels, "container_to_scalar_then_create")
		}
		// put-put over a path and its prefix, both created on the way: the later, shorter assignment wins and the
		// value keeps its own type (a string that reads like a number stays a string)
		if c.LHS == nil && (M[0].v == nil || M[0].v.K == model.Map || M[0].v.K == model.Null) {
			for _, sv := range []string{"5", "true"} {
				e7 := lhs + `.["nk1"].["nk2"] = 1 | ` + lhs + `.["nk1"] = "` + sv + `"`
				if sv == "true" {
					e7 = "(" + lhs + `.["nk1"].["nk2"], ` + lhs + `.["nk1"]) = "true"`
				}
				g, og := run1(e7, c.Doc)
				if v := crash(og, e7, c.Doc); v != nil {
					return *v
				}
				want := orig.Copy()
				var ok7 bool
				base := M[0].p
				if M[0].v == nil || M[0].v.K == model.Null {
					want, ok7 = set(want, base, model.NewMap())
				} else {
					ok7 = true
				}
				if ok7 {
					want, ok7 = set(want, append(append([]Step{}, base...), Step{K: "nk1"}), model.NewStr(sv))
				}
				if ok7 && g != nil && !model.Equal(g, want) {
					return hx.Bad("", "put-put over a created path and its prefix: `%s` gives %v, expected %s: doc=%s", e7, js(g), want.JSON(), c.Doc)
				}
				if ok7 && g != nil {
					labels = append(labels, "create_deep_then_assign_prefix")
				}
			}
		}
		// frame, for what the right-hand side only reads: a sequence read at the index just past its end (and
		// further out) is not padded by that read
		if orig.K == model.Map {
			aps, ans := allPaths(orig)
			for i, n := range ans {
				if n.K != model.Seq || len(aps[i]) == 0 {
					continue
				}
				for _, off := range []int{0, 2} {
					e9 := fmt.Sprintf(`.["zz_read"] = %s[%d]`, pathText(aps[i]), len(n.Elem)+off)
					g, og := run1(e9, c.Doc)
					if v := crash(og, e9, c.Doc); v != nil {
						return *v
					}
					want := orig.Copy()
					want, _ = set(want, []Step{{K: "zz_read"}}, model.NewNull())
					if g == nil || !model.Equal(g, want) {
						return hx.Bad("", "frame: `%s` gives %v, expected %s (err %q): doc=%s", e9, js(g), want.JSON(), og.Err, c.Doc)
					}
				}
				labels = append(labels, "rhs_reads_past_the_end")
				break
			}
		}
		// get-put (existing single path)
		if c.LHS == nil && M[0].v != nil {
			e5 := lhs + " = " + lhs
			g, og := run1(e5, c.Doc)
			if v := crash(og, e5, c.Doc); v != nil {
				return *v
			}
			if g == nil || !model.Equal(g, orig) {
				return hx.Bad("", "get-put: `%s` changed the document: %v vs %s (err %q)", e5, js(g), orig.JSON(), og.Err)
			}
		}
	}
	if len(M) == 0 {
		labels = append(labels, "no_match")
	}
	changed := !model.Equal(exp, orig)
	nontrivial := len(M) > 0 && outside >= 3 && changed
	return hx.OK(nontrivial, expr+"\x00"+c.Doc, labels...)
}

// checkMultiIdx: `base.[i, j, k] = v` (or |= [.]): every index is resolved against the sequence as the
// traversal finds it (earlier indices of the same traversal may have padded it), all matches get the value.
func checkMultiIdx(c Case, orig *model.Value) hx.Verdict {
	seq, ok := lookup(orig, c.Path)
	if !ok || seq.K != model.Seq {
		return hx.Disc("multiidx_base")
	}
	var parts []string
	for _, i := range c.Idx {
		parts = append(parts, fmt.Sprint(i))
	}
	lhs := pathText(c.Path)
	if lhs == "." {
		lhs = ""
	}
	lhs += ".[" + strings.Join(parts, ", ") + "]"
	v, _ := model.ParseJSON(c.V)
	exp := orig.Copy()
	// first the traversal (padding), then the writes
	cur, _ := lookup(exp, c.Path)
	var targets []int
	hasNeg, hasPad := false, false
	for _, i := range c.Idx {
		if i < 0 {
			hasNeg = true
		}
		if i >= len(cur.Elem) {
			hasPad = true
		}
	}
	if hasNeg && hasPad {
		// "the end" moves while the same traversal pads the sequence: which element a negative index names then
		// (the end before the traversal, or the end after the padding done by an earlier index of the same
		// traversal) is not stated by the property, and every law of it can be read either way: `= ` resolves the
		// path a second time after the padding, `|=` once. Both readings satisfy put-get and frame.
		return hx.Unspec("negative_index_with_padding")
	}
	for _, i := range c.Idx {
		j := i
		if j < 0 {
			j += len(cur.Elem)
			if j < 0 {
				return hx.Unspec("negative_out_of_range")
			}
		}
		for len(cur.Elem) <= j {
			cur.Elem = append(cur.Elem, model.NewNull())
		}
		targets = append(targets, j)
	}
	expr := lhs + " = " + litText(c.V)
	if c.F != nil {
		expr = lhs + " |= [.]"
	}
	done := map[int]bool{}
	for k := len(targets) - 1; k >= 0; k-- {
		j := targets[k]
		if c.F != nil {
			if done[j] {
				return hx.Unspec("repeated_index_under_update")
			}
			done[j] = true
			cur.Elem[j] = model.NewSeq(cur.Elem[j])
		} else {
			cur.Elem[j] = v.Copy()
		}
	}
	got, o := run1(expr, c.Doc)
	if vv := crash(o, expr, c.Doc); vv != nil {
		return *vv
	}
	if got == nil {
		return hx.Bad("", "assignment failed (%s): expr=%s doc=%s", o.Err, expr, c.Doc)
	}
	if !model.Equal(got, exp) {
		return hx.Bad("", "multi-index put/frame: result %s differs from expected %s: expr=%s doc=%s", got.JSON(), exp.JSON(), expr, c.Doc)
	}
	return hx.OK(true, expr+"\x00"+c.Doc, append([]string{"form:multiidx"}, c.Label...)...)
}

func js(v *model.Value) string {
	if v == nil {
		return "<no result>"
	}
	return v.JSON()
}

func TestProp(t *testing.T) {
	hx.RunProperty(t, hx.NewSub("laws", 8000, 60000, genCase, check), hx.NewSub("context", 600, 5000, genCtx, checkCtx))
}
