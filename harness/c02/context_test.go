package c02

import (
	"fmt"
	"strings"

	"pgregory.net/rapid"
	"verif/hx"
	"verif/model"
)

// `p op= e` in a context of several nodes (`.[] | (.a += .b)`, eval-all over several documents): each match m gets
// m op e with e read from the node m belongs to.

type CtxCase struct {
	Elems [][2]int `json:"elems"` // a, b of every element
	Op    string   `json:"op"`
	Mode  string   `json:"mode"` // splat: one document, `.[] | (...)`; docs: one document per element, eval-all
}

func genCtx(t *rapid.T) CtxCase {
	c := CtxCase{Op: rapid.SampledFrom([]string{"+=", "-=", "*="}).Draw(t, "op"), Mode: rapid.SampledFrom([]string{"splat", "splat", "docs"}).Draw(t, "mode")}
	for i := rapid.IntRange(2, 4).Draw(t, "n"); i > 0; i-- {
		c.Elems = append(c.Elems, [2]int{rapid.IntRange(-5, 20).Draw(t, "a"), rapid.IntRange(-5, 20).Draw(t, "b")})
	}
	return c
}

func checkCtx(c CtxCase) hx.Verdict {
	var docs []string
	want := model.NewSeq()
	for _, e := range c.Elems {
		docs = append(docs, fmt.Sprintf(`{"a": %d, "b": %d}`, e[0], e[1]))
		r := e[0] + e[1]
		switch c.Op {
		case "-=":
			r = e[0] - e[1]
		case "*=":
			r = e[0] * e[1]
		}
		want.Elem = append(want.Elem, model.NewMap().Set("a", model.NewInt(int64(r))).Set("b", model.NewInt(int64(e[1]))))
	}
	var o hx.Outcome
	expr := ".[] | (.a " + c.Op + " .b)"
	input := "[" + strings.Join(docs, ", ") + "]"
	if c.Mode == "docs" {
		expr = ".a " + c.Op + " .b"
		input = strings.Join(docs, "\n") + "\n"
		o = hx.Run(expr, input, hx.Opts{In: "json", Out: "json", IndentSet: true, EvalAll: true})
	} else {
		o = hx.Run(expr, input, hx.Opts{In: "json", Out: "json", IndentSet: true})
	}
	if o.Crashed() {
		return hx.Bad("panic-site:"+o.PanicSite, "panic %s: %s", o.Panic, expr)
	}
	if o.Err != "" {
		return hx.Bad("", "compound assignment failed (%s): expr=%s input=%s", o.Err, expr, input)
	}
	got, err := model.ParseJSONStream(o.Out)
	if err != nil {
		return hx.Bad("", "output is not JSON: %q", o.Out)
	}
	gs := model.NewSeq(got...)
	if !model.Equal(gs, want) {
		return hx.Bad("", "`%s` gives %s, expected %s (each match m gets m op e, e read from m's own node): input=%s", expr, gs.JSON(), want.JSON(), input)
	}
	return hx.OK(true, expr+input, "form:context_compound", "ctx:"+c.Mode)
}
