package c02

import (
	"fmt"
	"strings"

	"pgregory.net/rapid"
	"verif/hx"
	"verif/model"
)

// `p op= e` in a context of several nodes (`.[] | (.a += .b)`, eval-all over several documents): each match m gets
// m op e with e read from the node m belongs to.

type CtxCase struct {
	Elems [][2]int `json:"elems"` // a, b of every element
	Op    string   `json:"op"`
	Mode  string   `json:"mode"`            // splat: one document, `.[] | (...)`; docs: one document per element, eval-all
	Fresh bool     `json:"fresh,omitempty"` // the updated key does not exist yet (`.n += 1` on maps without n): created in every node
}

func genCtx(t *rapid.T) CtxCase {
	c := CtxCase{Op: rapid.SampledFrom([]string{"+=", "-=", "*="}).Draw(t, "op"), Mode: rapid.SampledFrom([]string{"splat", "splat", "docs"}).Draw(t, "mode")}
	for i := rapid.IntRange(2, 4).Draw(t, "n"); i > 0; i-- {
		c.Elems = append(c.Elems, [2]int{rapid.IntRange(-5, 20).Draw(t, "a"), rapid.IntRange(-5, 20).Draw(t, "b")})
	}
	c.Fresh = rapid.IntRange(0, 3).Draw(t, "fresh") == 0
	if c.Fresh {
		c.Op = "+="
	}
	return c
}

func checkCtx(c CtxCase) hx.Verdict {
	if c.Fresh {
		return checkCtxFresh(c)
	}
	var docs []string
	want := model.NewSeq()
	for _, e := range c.Elems {
		docs = append(docs, fmt.Sprintf(`{"a": %d, "b": %d}`, e[0], e[1]))
		r := e[0] + e[1]
		switch c.Op {
		case "-=":
			r = e[0] - e[1]
		case "*=":
			r = e[0] * e[1]
		}
		want.Elem = append(want.Elem, model.NewMap().Set("a", model.NewInt(int64(r))).Set("b", model.NewInt(int64(e[1]))))
	}
	var o hx.Outcome
	expr := ".[] | (.a " + c.Op + " .b)"
	input := "[" + strings.Join(docs, ", ") + "]"
	if c.Mode == "docs" {
		expr = ".a " + c.Op + " .b"
		input = strings.Join(docs, "\n") + "\n"
		o = hx.Run(expr, input, hx.Opts{In: "json", Out: "json", IndentSet: true, EvalAll: true})
	} else {
		o = hx.Run(expr, input, hx.Opts{In: "json", Out: "json", IndentSet: true})
	}
	if o.Crashed() {
		return hx.Bad("panic-site:"+o.PanicSite, "panic %s: %s", o.Panic, expr)
	}
	if o.Err != "" {
		return hx.Bad("", "compound assignment failed (%s): expr=%s input=%s", o.Err, expr, input)
	}
	got, err := model.ParseJSONStream(o.Out)
	if err != nil {
		return hx.Bad("", "output is not JSON: %q", o.Out)
	}
	gs := model.NewSeq(got...)
	if !model.Equal(gs, want) {
		return hx.Bad("", "`%s` gives %s, expected %s (each match m gets m op e, e read from m's own node): input=%s", expr, gs.JSON(), want.JSON(), input)
	}
	return hx.OK(true, expr+input, "form:context_compound", "ctx:"+c.Mode)
}

// checkCtxFresh: `.n += b` where n does not exist: every node of the context gets n = b (null + b)
func checkCtxFresh(c CtxCase) hx.Verdict {
	var docs []string
	want := model.NewSeq()
	for _, e := range c.Elems {
		docs = append(docs, fmt.Sprintf(`{"a": %d, "b": %d}`, e[0], e[1]))
		want.Elem = append(want.Elem, model.NewMap().Set("a", model.NewInt(int64(e[0]))).Set("b", model.NewInt(int64(e[1]))).Set("n", model.NewInt(int64(e[1]))))
	}
	expr := ".[] | (.n += .b)"
	input := "[" + strings.Join(docs, ", ") + "]"
	opts := hx.Opts{In: "json", Out: "json", IndentSet: true}
	if c.Mode == "docs" {
		expr, input = ".n += .b", strings.Join(docs, "\n")+"\n"
		opts.EvalAll = true
	}
	o := hx.Run(expr, input, opts)
	if o.Crashed() {
		return hx.Bad("panic-site:"+o.PanicSite, "panic %s: %s", o.Panic, expr)
	}
	if o.Err != "" {
		return hx.Bad("", "compound assignment to a new key failed (%s): expr=%s input=%s", o.Err, expr, input)
	}
	got, err := model.ParseJSONStream(o.Out)
	if err != nil || len(got) != len(want.Elem) {
		return hx.Bad("", "`%s` gives %d results for %d nodes: %q input=%s", expr, len(got), len(want.Elem), o.Out, input)
	}
	for i := range got {
		if !model.Equal(got[i], want.Elem[i]) {
			return hx.Bad("", "`%s`: node %d becomes %s, expected %s (a new key is created in every node of the context): input=%s", expr, i, got[i].JSON(), want.Elem[i].JSON(), input)
		}
	}
	return hx.OK(true, expr+input, "ctx:fresh_key", "mode:"+c.Mode)
}
