package c03

import (
	"strings"
	"testing"

	"pgregory.net/rapid"
	"verif/gen"
	"verif/hx"
	"verif/model"
	"verif/ref"
)

const rule = "case = (document with mostly distinct leaves, derivation f at the root or a sub-path, selection(s) s). expr = `[path |] f | del(s)` or del(s1, s2) in both orders. " +
	"oracle: reference: V = ref.Eval(f); victims = identities ref.Eval(s, V) selects in V; expected = V without exactly those nodes; compared with yq's JSON output. " +
	"non-trivial = at least one victim and a surviving sibling of a victim; distinct by (expr, doc)"

func TestMain(m *testing.M) {
	hx.Main(m, "C03", rule,
		"selections that select the root of the value del is applied to are not judged (top-level removal is not stated by the property)",
		"predicates/derivations where the reference is Unspecified are counted and skipped")
}

type Case struct {
	Doc   string   `json:"doc"`
	Expr  string   `json:"expr"`
	Pre   *ref.E   `json:"pre"` // derivation, evaluates to one value V
	Sels  []*ref.E `json:"sels"`
	Label []string `json:"label"`
}

func ip(i int) *int { return &i }

// genSelection generates a selection over value v (the value del is applied to).
func genSelection(t *rapid.T, v *model.Value, labels *[]string) *ref.E {
	n := len(v.Elem)
	switch rapid.IntRange(0, 7).Draw(t, "selk") {
	case 0, 1: // single child
		if v.K == model.Seq {
			return &ref.E{Op: "idx", I: ip(rapid.IntRange(-n, n).Draw(t, "si"))}
		}
		if len(v.Keys) > 0 {
			k := rapid.SampledFrom(v.Keys).Draw(t, "sk")
			if gen.SafeStr(k) {
				return &ref.E{Op: "key", S: k, J: ip(1)}
			}
		}
		return &ref.E{Op: "key", S: "nokey"}
	case 2: // several indices of one sequence, random order, repeats
		if v.K == model.Seq && n > 0 {
			*labels = append(*labels, "multi_same_seq")
			k := rapid.IntRange(2, 4).Draw(t, "nidx")
			var u *ref.E
			for i := 0; i < k; i++ {
				ie := &ref.E{Op: "idx", I: ip(rapid.IntRange(0, n-1).Draw(t, "mi"))}
				if u == nil {
					u = ie
				} else {
					u = &ref.E{Op: "union", A: []*ref.E{u, ie}}
				}
			}
			return u
		}
		return &ref.E{Op: "splat"}
	case 3: // splat + predicate
		var s *model.Value
		if v.K == model.Seq && n > 0 {
			s = v.Elem[rapid.IntRange(0, n-1).Draw(t, "ps")]
		} else if v.K == model.Map && len(v.Vals) > 0 {
			s = v.Vals[rapid.IntRange(0, len(v.Vals)-1).Draw(t, "ps")]
		}
		*labels = append(*labels, "splat_select")
		return gen.Pipe(&ref.E{Op: "splat"}, &ref.E{Op: "select", A: []*ref.E{gen.Pred(t, s)}})
	case 4: // recursive descent + predicate
		var all []*model.Value
		v.Walk(func(x *model.Value) {
			if x != v {
				all = append(all, x)
			}
		})
		var s *model.Value
		if len(all) > 0 {
			s = all[rapid.IntRange(0, len(all)-1).Draw(t, "rs")]
		}
		*labels = append(*labels, "rdesc_select")
		return gen.Pipe(&ref.E{Op: "rdesc"}, &ref.E{Op: "select", A: []*ref.E{gen.Pred(t, s)}})
	case 5: // nested path
		paths, nodes := gen.ContainerPaths(v)
		if len(paths) > 1 {
			i := rapid.IntRange(1, len(paths)-1).Draw(t, "np")
			inner := genSelection(t, nodes[i], labels)
			*labels = append(*labels, "nested_path")
			return gen.Pipe(paths[i], inner)
		}
		return &ref.E{Op: "splat"}
	case 6: // a victim inside another victim
		if v.K == model.Seq && n > 0 {
			i := rapid.IntRange(0, n-1).Draw(t, "ni")
			*labels = append(*labels, "nested_victims")
			return &ref.E{Op: "union", A: []*ref.E{gen.Pipe(&ref.E{Op: "idx", I: ip(i)}, &ref.E{Op: "splat"}), {Op: "idx", I: ip(i)}}}
		}
		return &ref.E{Op: "splat"}
	default:
		return &ref.E{Op: "splat"}
	}
}

func printDel(sels []*ref.E) string {
	var parts []string
	for _, s := range sels {
		if s.Op == "union" || s.Op == "pipe" {
			parts = append(parts, "("+ref.Print(s)+")")
		} else {
			parts = append(parts, ref.Print(s))
		}
	}
	return "del(" + strings.Join(parts, ", ") + ")"
}

func genCase(t *rapid.T) Case {
	doc := gen.JSONDoc(t, gen.DocOpts{Depth: 3, Width: 5, Distinct: rapid.IntRange(0, 4).Draw(t, "distinct") > 0, NoFloats: true, SimpleStr: true})
	var labels []string
	paths, nodes := gen.ContainerPaths(doc)
	var pre *ref.E = &ref.E{Op: "self"}
	target := doc
	if len(paths) > 0 {
		i := rapid.IntRange(0, len(paths)-1).Draw(t, "at")
		pre, target = paths[i], nodes[i]
	}
	f := gen.Derivation(t, target, &labels)
	pre = gen.Pipe(pre, f)
	// V as the reference sees it, to fit the selection to it
	var v *model.Value
	if r, err := ref.Eval(pre, []*model.Value{doc}, ref.Env{}); err == nil && len(r) == 1 {
		v = r[0].Copy()
	} else {
		v = target
	}
	sels := []*ref.E{genSelection(t, v, &labels)}
	if rapid.IntRange(0, 2).Draw(t, "two") == 0 {
		sels = append(sels, genSelection(t, v, &labels))
		labels = append(labels, "two_selections")
		if rapid.Bool().Draw(t, "swap") {
			sels[0], sels[1] = sels[1], sels[0]
		}
	}
	expr := printDel(sels)
	if pre.Op != "self" {
		w := ref.Print(pre)
		if pre.Op == "union" || pre.Op == "bin" {
			w = "(" + w + ")"
		}
		expr = w + " | " + expr
	}
	return Case{Doc: doc.JSON(), Expr: expr, Pre: pre, Sels: sels, Label: labels}
}

// remove deletes the identified nodes from v (in place); reports whether some victim had a surviving sibling.
func remove(v *model.Value, victims map[*model.Value]bool) (sibling bool) {
	switch v.K {
	case model.Seq:
		var keep []*model.Value
		for _, e := range v.Elem {
			if !victims[e] {
				keep = append(keep, e)
			}
		}
		if len(keep) != len(v.Elem) && len(keep) > 0 {
			sibling = true
		}
		v.Elem = keep
		for _, e := range keep {
			if remove(e, victims) {
				sibling = true
			}
		}
	case model.Map:
		var ks []string
		var vs []*model.Value
		for i, e := range v.Vals {
			if !victims[e] {
				ks = append(ks, v.Keys[i])
				vs = append(vs, e)
			}
		}
		if len(vs) != len(v.Vals) && len(vs) > 0 {
			sibling = true
		}
		v.Keys, v.Vals = ks, vs
		for _, e := range vs {
			if remove(e, victims) {
				sibling = true
			}
		}
	}
	return
}

func check(c Case) hx.Verdict {
	doc, err := model.ParseJSON(c.Doc)
	if err != nil {
		return hx.Disc("bad_doc")
	}
	ref.Misses = 0
	r, rerr := ref.Eval(c.Pre, []*model.Value{doc}, ref.Env{})
	if rerr != nil || len(r) != 1 {
		if rerr != nil && !ref.IsUnspec(rerr) {
			return hx.Unspec("derivation_errors")
		}
		return hx.Unspec("derivation_unspecified")
	}
	v := r[0].Copy() // fresh identities: V as a value of its own
	victims := map[*model.Value]bool{}
	for _, s := range c.Sels {
		ids, err := ref.Eval(s, []*model.Value{v}, ref.Env{})
		if err != nil {
			if ref.IsUnspec(err) {
				return hx.Unspec("selection_unspecified")
			}
			return hx.Unspec("selection_errors")
		}
		for _, id := range ids {
			victims[id] = true
		}
	}
	if victims[v] {
		return hx.Unspec("selects_root")
	}
	// only nodes that are really inside V count
	inV := map[*model.Value]bool{}
	v.Walk(func(x *model.Value) { inV[x] = true })
	nv := 0
	for id := range victims {
		if inV[id] {
			nv++
		} else {
			delete(victims, id)
		}
	}
	want := v
	sibling := remove(want, victims)

	got, o := hx.JSONResults(c.Expr, c.Doc, "json")
	if o.Crashed() {
		return hx.Bad("panic-site:"+o.PanicSite, "panic %s: expr=%s doc=%s", o.Panic, c.Expr, c.Doc)
	}
	if o.Timeout {
		return hx.Unspec("slow")
	}
	if o.Err != "" {
		return hx.Bad("", "yq failed (%s) where the reference deletes %d node(s): expr=%s doc=%s", o.Err, nv, c.Expr, c.Doc)
	}
	if len(got) != 1 {
		return hx.Bad("", "expected one result, got %d [%s]: expr=%s doc=%s", len(got), strings.Join(got, " "), c.Expr, c.Doc)
	}
	gv, err := model.ParseJSON(got[0])
	if err != nil {
		return hx.Bad("", "output is not JSON: %q", got[0])
	}
	if !model.Equal(gv, want) {
		return hx.Bad("", "del removed the wrong nodes: yq %s vs expected %s: expr=%s doc=%s", got[0], want.JSON(), c.Expr, c.Doc)
	}
	labels := append([]string{}, c.Label...)
	derived := false
	for _, l := range c.Label {
		if strings.HasPrefix(l, "f:") && l != "f:identity" {
			derived = true
		}
	}
	if derived {
		labels = append(labels, "derived_container")
	}
	if nv == 0 {
		labels = append(labels, "no_victim")
	}
	return hx.OK(nv > 0 && sibling, c.Expr+"\x00"+c.Doc, labels...)
}

func TestProp(t *testing.T) {
	hx.RunProperty(t, hx.NewSub("del", 15000, 100000, genCase, check))
}
