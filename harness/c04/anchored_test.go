package c04

import (
	"fmt"
	"strings"

	"pgregory.net/rapid"
	"verif/hx"
)

// operands that hold aliases and merge keys: the merge works on a copy of its left operand, and what the copy
// still shares with the document (the anchored nodes its aliases point at) must read the same afterwards.

type AnchCase struct {
	Flags Flags  `json:"flags"`
	LKind string `json:"lkind"` // merge | alias | both
	X     int    `json:"x"`
	K     int    `json:"k"`
	RKey  string `json:"rkey"`
	RNew  string `json:"rnew"`
	Swap  bool   `json:"swap"`
}

func genAnch(t *rapid.T) AnchCase {
	return AnchCase{
		Flags: Flags{rapid.Bool().Draw(t, "f+"), rapid.Bool().Draw(t, "fd"), rapid.Bool().Draw(t, "f?"), rapid.Bool().Draw(t, "fn")},
		LKind: rapid.SampledFrom([]string{"merge", "alias", "both"}).Draw(t, "lkind"),
		X:     rapid.IntRange(0, 9).Draw(t, "x"), K: rapid.IntRange(0, 9).Draw(t, "k"),
		RKey: rapid.SampledFrom([]string{"x", "y", "a", "own"}).Draw(t, "rkey"),
		RNew: rapid.SampledFrom([]string{"k", "n", "x"}).Draw(t, "rnew"),
		Swap: rapid.IntRange(0, 4).Draw(t, "swap") == 0,
	}
}

func checkAnch(c AnchCase) hx.Verdict {
	var l string
	switch c.LKind {
	case "merge":
		l = "l: {<<: *b, own: 1}"
	case "alias":
		l = "l: {a: *b, y: *inner, own: 1}"
	default:
		l = "l: {<<: *b, a: *b, own: 1}"
	}
	doc := fmt.Sprintf("inner: &inner {k: %d, s: [1, 2]}\nbase: &b {x: %d, y: *inner}\n%s\nr: {%s: {%s: 7, s: [3]}, x: 5, z: 3}\n", c.K, c.X, l, c.RKey, c.RNew)
	op := "*" + c.Flags.String()
	lhs, rhs := ".l", ".r"
	if c.Swap {
		lhs, rhs = ".r", ".l"
	}
	base := hx.Run(".", doc, hx.Opts{})
	if !base.OK() {
		return hx.Disc("doc")
	}
	for _, e := range []string{
		"(" + lhs + " " + op + " " + rhs + ") as $m | .",
		"(" + lhs + " " + op + " " + rhs + ") as $m | ($m | .. |= \"X\") as $junk | .",
		"[" + lhs + " " + op + " " + rhs + "] | length as $n | .",
	} {
		if strings.HasPrefix(e, "[") {
			// `[e] | length as $n | .` is the array, not the document: read the document through a variable instead
			e = ". as $d | ([" + lhs + " " + op + " " + rhs + "] | length) as $n | $d"
		}
		o := hx.Run(e, doc, hx.Opts{})
		if o.Crashed() {
			return hx.Bad("panic-site:"+o.PanicSite, "panic %s: %s", o.Panic, e)
		}
		if o.Err != "" {
			continue // flag combinations the operands do not support
		}
		if o.Out != base.Out {
			return hx.Bad("", "a merge changed the document its operands come from: `%s`\n--- yq .\n%s--- after\n%s", e, base.Out, o.Out)
		}
	}
	return hx.OK(true, doc+op+lhs, "anchored_operands", "anch:"+c.LKind)
}
