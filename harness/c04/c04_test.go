package c04

import (
	"fmt"
	"regexp"
	"strings"
	"testing"

	"pgregory.net/rapid"
	"verif/hx"
	"verif/model"
)

const rule = "case = (2-5 nested map documents built to collide: 4-letter key alphabet at every level, each side independently absent / scalar / null / map / sequence of scalars / sequence of maps; flag subset of {+, d, ?, n}; form: `.a * .b`, `.a *= .b`, or `. as $i ireduce ({}; . * $i)` over a multi-document input). " +
	"oracle: reference merge written from multiply-merge.md (a's entries first, then b's new ones; maps recursive; otherwise b's value; + append, d by position, ? existing only, n new only), left fold for the reduce form; algebraic identities a*{}=a, {}*a=a, a*a=a; operands unchanged afterwards, also after the result itself is overwritten. " +
	"non-trivial = a common key at depth >= 2 or a kind conflict at a common key; distinct by (documents, flags, form)"

func TestMain(m *testing.M) {
	hx.Main(m, "C04", rule,
		"the region the property leaves open (map-vs-non-map or sequence-vs-scalar conflict at one key combined with +, ? or n) is Unspecified, as are flag combinations the documentation does not show for sequences (n with + or d) and an existing null under n",
		"key order is compared (a's entries first, then b's new entries)")
}

type Flags struct{ Plus, Deep, Existing, New bool }

func (f Flags) String() string {
	s := ""
	if f.Plus {
		s += "+"
	}
	if f.Deep {
		s += "d"
	}
	if f.Existing {
		s += "?"
	}
	if f.New {
		s += "n"
	}
	return s
}

type Case struct {
	IntKeys bool     `json:"int_keys,omitempty"` // number-like keys are unquoted YAML integers, not strings
	Docs    []string `json:"docs"`               // JSON maps
	Flags   Flags    `json:"flags"`
	Form    string   `json:"form"` // op | assign | reduce
}

var keys = []string{"a", "b", "c", "d"}

// keys that are patterns or read like numbers: in JSON documents they are strings, matched literally
var hostileKeys = []string{"a", "a*", "?", "*", "ab", "02134", "0x1F", "1_000", "+5", "1", "true", "null", "a.b", "[0]"}

func genVal(t *rapid.T, depth int) *model.Value {
	k := rapid.IntRange(0, 9).Draw(t, "k")
	if depth <= 0 && k >= 4 {
		k = k % 4
	}
	switch k {
	case 0:
		return model.NewInt(int64(rapid.IntRange(0, 99).Draw(t, "i")))
	case 1:
		return model.NewStr(rapid.SampledFrom([]string{"x", "y", "z", ""}).Draw(t, "s"))
	case 2:
		return model.NewNull()
	case 3:
		return model.NewBool(rapid.Bool().Draw(t, "b"))
	case 4, 5, 6:
		return genMap(t, depth-1)
	case 7:
		s := model.NewSeq()
		for i := rapid.IntRange(0, 3).Draw(t, "sn"); i > 0; i-- {
			s.Elem = append(s.Elem, model.NewInt(int64(rapid.IntRange(0, 9).Draw(t, "si"))))
		}
		return s
	default:
		s := model.NewSeq()
		for i := rapid.IntRange(0, 3).Draw(t, "sn"); i > 0; i-- {
			if rapid.IntRange(0, 3).Draw(t, "sk") == 0 {
				s.Elem = append(s.Elem, model.NewInt(int64(rapid.IntRange(0, 9).Draw(t, "si"))))
			} else {
				s.Elem = append(s.Elem, genMap(t, depth-1))
			}
		}
		return s
	}
}

func genMap(t *rapid.T, depth int) *model.Value {
	m := model.NewMap()
	// random key order
	ks := rapid.Permutation(keys).Draw(t, "ko")
	for _, k := range ks {
		if rapid.IntRange(0, 2).Draw(t, "present") > 0 {
			m.Set(k, genVal(t, depth))
		}
	}
	return m
}

func genCase(t *rapid.T) Case {
	c := Case{Form: rapid.SampledFrom([]string{"op", "op", "assign", "reduce"}).Draw(t, "form")}
	keys = []string{"a", "b", "c", "d"}
	if rapid.IntRange(0, 4).Draw(t, "hostile") == 0 {
		keys = rapid.SliceOfNDistinct(rapid.SampledFrom(hostileKeys), 4, 4, func(s string) string { return s }).Draw(t, "hkeys")
		c.IntKeys = rapid.Bool().Draw(t, "intkeys")
	}
	n := 2
	if c.Form == "reduce" {
		n = rapid.IntRange(2, 5).Draw(t, "nfiles")
	}
	for i := 0; i < n; i++ {
		c.Docs = append(c.Docs, genMap(t, 3).JSON())
	}
	c.Flags = Flags{rapid.Bool().Draw(t, "f+"), rapid.Bool().Draw(t, "fd"), rapid.Bool().Draw(t, "f?"), rapid.Bool().Draw(t, "fn")}
	if rapid.IntRange(0, 2).Draw(t, "plain") == 0 {
		c.Flags = Flags{}
	}
	return c
}

type unspec struct{ why string }

func (u *unspec) Error() string { return u.why }

type stats struct{ deepCommon, conflict bool }

func mergeVal(av, bv *model.Value, f Flags, depth int, st *stats) (*model.Value, error) {
	switch {
	case av.K == model.Map && bv.K == model.Map:
		return mergeMap(av, bv, f, depth+1, st)
	case av.K == model.Seq && bv.K == model.Seq:
		if f.New && (f.Plus || f.Deep) {
			return nil, &unspec{"sequences under n combined with + or d"}
		}
		if f.New {
			return av.Copy(), nil
		}
		if f.Deep {
			res := av.Copy()
			for i, be := range bv.Elem {
				if i < len(res.Elem) {
					x, err := mergeVal(res.Elem[i], be, f, depth+1, st)
					if err != nil {
						return nil, err
					}
					res.Elem[i] = x
				} else if !f.Existing {
					res.Elem = append(res.Elem, be.Copy())
				}
			}
			if f.Plus {
				return nil, &unspec{"+ combined with d"}
			}
			return res, nil
		}
		if f.Plus {
			res := av.Copy()
			for _, be := range bv.Elem {
				res.Elem = append(res.Elem, be.Copy())
			}
			return res, nil
		}
		return bv.Copy(), nil
	}
	aCont, bCont := !av.IsScalar(), !bv.IsScalar()
	if aCont || bCont {
		// map vs non-map, sequence vs scalar, map vs sequence
		st.conflict = true
		if f.Plus || f.Existing || f.New {
			return nil, &unspec{"kind conflict combined with +, ? or n"}
		}
		return bv.Copy(), nil
	}
	// two scalars
	if f.New {
		if av.K == model.Null {
			return nil, &unspec{"existing null under n"}
		}
		return av.Copy(), nil
	}
	return bv.Copy(), nil
}

func mergeMap(a, b *model.Value, f Flags, depth int, st *stats) (*model.Value, error) {
	res := a.Copy()
	for i, k := range b.Keys {
		bv := b.Vals[i]
		if av, ok := res.Get(k); ok {
			if depth >= 2 {
				st.deepCommon = true
			}
			x, err := mergeVal(av, bv, f, depth, st)
			if err != nil {
				return nil, err
			}
			res.Set(k, x)
		} else if !f.Existing {
			res.Set(k, bv.Copy())
		}
	}
	return res, nil
}

// intKeys: the documents are read as YAML with the number-like keys unquoted, so that they are integers in a
// non-canonical spelling (0x1F, 02134, 1_000, +5) instead of strings; JSON output prints them as the same strings
var intKeys = false

var numLikeKey = regexp.MustCompile(`"(0x1F|02134|1_000|\+5)":`)

func one(expr, input string, evalAll bool) (*model.Value, hx.Outcome) {
	in := "json"
	if intKeys {
		// (one JSON document per line becomes one YAML document each)
		in, input = "yaml", strings.ReplaceAll(strings.TrimRight(numLikeKey.ReplaceAllString(input, "$1: "), "\n"), "\n", "\n---\n")+"\n"
	}
	o := hx.Run(expr, input, hx.Opts{In: in, Out: "json", IndentSet: true, Indent: 0, EvalAll: evalAll})
	if !o.OK() {
		return nil, o
	}
	vs, err := model.ParseJSONStream(o.Out)
	if err != nil || len(vs) != 1 {
		o.Err = fmt.Sprintf("expected one JSON result, got %d (%v)", len(vs), err)
		return nil, o
	}
	return vs[0], o
}

func check(c Case) hx.Verdict {
	intKeys = c.IntKeys
	defer func() { intKeys = false }()
	var docs []*model.Value
	for _, d := range c.Docs {
		v, err := model.ParseJSON(d)
		if err != nil {
			return hx.Disc("bad_doc")
		}
		docs = append(docs, v)
	}
	if c.Flags.Plus && c.Flags.Deep {
		// append and merge-by-position at once: the documentation defines neither precedence nor meaning
		for _, d := range docs {
			hasSeq := false
			d.Walk(func(x *model.Value) {
				if x.K == model.Seq {
					hasSeq = true
				}
			})
			if hasSeq {
				return hx.Unspec("why:+ combined with d over sequences")
			}
		}
	}
	st := &stats{}
	op := "*" + c.Flags.String()
	labels := []string{"form:" + c.Form, "flags:" + c.Flags.String()}
	fail := func(o hx.Outcome, expr, in string) *hx.Verdict {
		if o.Crashed() {
			v := hx.Bad("panic-site:"+o.PanicSite, "panic %s: expr=%s input=%s", o.Panic, expr, in)
			return &v
		}
		if o.Timeout {
			v := hx.Unspec("slow")
			return &v
		}
		return nil
	}
	switch c.Form {
	case "op", "assign":
		a, b := docs[0], docs[1]
		want, err := mergeMap(a, b, c.Flags, 1, st)
		in := model.NewMap().Set("a", a).Set("b", b).JSON()
		expr := ".a " + op + " .b"
		if c.Form == "assign" {
			expr = ".a *=" + c.Flags.String() + " .b | .a"
		}
		got, o := one(expr, in, false)
		if v := fail(o, expr, in); v != nil {
			return *v
		}
		if err != nil {
			return hx.Unspec("why:" + err.Error())
		}
		if got == nil {
			return hx.Bad("", "merge failed (%s): expr=%s input=%s", o.Err, expr, in)
		}
		if !model.Equal(got, want) {
			return hx.Bad("", "merge result %s differs from the documented merge %s: expr=%s input=%s", got.JSON(), want.JSON(), expr, in)
		}
		if c.Form == "op" {
			// operands read the same afterwards ...
			e2 := "(" + expr + ") as $m | [.a, .b]"
			g2, o2 := one(e2, in, false)
			if v := fail(o2, e2, in); v != nil {
				return *v
			}
			if g2 == nil || !model.Equal(g2, model.NewSeq(a, b)) {
				return hx.Bad("", "an operand of the merge changed: `%s` gives %v, expected %s (err %q)", e2, js(g2), model.NewSeq(a, b).JSON(), o2.Err)
			}
			// ... also after every node of the result has been overwritten (no shared nodes)
			e3 := "(" + expr + ") as $m | ($m | .. |= \"X\") as $junk | [.a, .b]"
			g3, o3 := one(e3, in, false)
			if v := fail(o3, e3, in); v != nil {
				return *v
			}
			if g3 == nil || !model.Equal(g3, model.NewSeq(a, b)) {
				return hx.Bad("", "overwriting the merge result changed an operand (shared nodes): `%s` gives %v, expected %s (err %q)", e3, js(g3), model.NewSeq(a, b).JSON(), o3.Err)
			}
			// ... and when there is nothing to merge in (a null, a missing key): the result is a value of its own then too
			for _, rhs := range []string{"null", ".zz_missing", "{}"} {
				e3n := "(.a " + op + " " + rhs + " | .. |= \"X\") as $junk | .a"
				g3n, o3n := one(e3n, in, false)
				if v := fail(o3n, e3n, in); v != nil {
					return *v
				}
				if o3n.Err == "" && (g3n == nil || !model.Equal(g3n, a)) {
					return hx.Bad("", "overwriting the result of a merge with nothing changed the left operand (shared nodes): `%s` gives %v, expected %s", e3n, js(g3n), a.JSON())
				}
			}
			// a right operand whose sequences were rebuilt (here: stored reversed and reversed back inside the
			// expression) is the same value and must merge the same way: elements are placed by where they are
			if hasSeq(b) {
				in3 := model.NewMap().Set("a", a).Set("bp", reverseSeqs(b)).JSON()
				e5 := ".a " + op + " (.bp | ((.. | select(kind == \"seq\")) |= reverse))"
				g5, o5 := one(e5, in3, false)
				if v := fail(o5, e5, in3); v != nil {
					return *v
				}
				if g5 == nil || !model.Equal(g5, want) {
					return hx.Bad("", "merging a right operand with rebuilt sequences differs: `%s` gives %v, expected %s (err %q) input=%s", e5, js(g5), want.JSON(), o5.Err, in3)
				}
			}
			// the same with operands that are documents themselves (no parent node) and with a variable bound to one
			in2 := a.JSON() + "\n" + b.JSON() + "\n"
			for _, e4 := range []string{
				"(select(di == 0) " + op + " select(di == 1)) as $m | select(di == 0)",
				"select(di == 0) as $d | ($d " + op + " select(di == 1)) as $m | $d",
				"(select(di == 0) " + op + " select(di == 1)) as $m | ($m | .. |= \"X\") as $junk | select(di == 0)",
			} {
				g4, o4 := one(e4, in2, true)
				if v := fail(o4, e4, in2); v != nil {
					return *v
				}
				if g4 == nil || !model.Equal(g4, a) {
					return hx.Bad("", "a document used as the left operand of a merge changed: `%s` gives %v, expected %s (err %q)", e4, js(g4), a.JSON(), o4.Err)
				}
			}
			// identities (no flags that make a*a differ by definition)
			if !c.Flags.Plus {
				for _, id := range []struct{ e, what string }{{".a " + op + " {}", "a * {} == a"}, {"{} " + op + " .a", "{} * a == a"}, {".a " + op + " .a", "a * a == a"}} {
					if c.Flags.Existing && strings.HasPrefix(id.e, "{}") {
						continue // {} *? a has no existing keys to merge into
					}
					gi, oi := one(id.e, in, false)
					if v := fail(oi, id.e, in); v != nil {
						return *v
					}
					if gi == nil || !model.Equal(gi, a) {
						return hx.Bad("", "identity %s fails: `%s` gives %v for a=%s (err %q)", id.what, id.e, js(gi), a.JSON(), oi.Err)
					}
				}
			}
		}
	case "reduce":
		acc := model.NewMap()
		var err error
		for _, d := range docs {
			acc, err = mergeMap(acc, d, c.Flags, 1, st)
			if err != nil {
				return hx.Unspec("why:" + err.Error())
			}
		}
		in := strings.Join(c.Docs, "\n") + "\n"
		expr := ". as $i ireduce ({}; . " + op + " $i)"
		got, o := one(expr, in, true)
		if v := fail(o, expr, in); v != nil {
			return *v
		}
		if got == nil {
			return hx.Bad("", "reduce merge failed (%s): expr=%s input=%s", o.Err, expr, in)
		}
		if !model.Equal(got, acc) {
			return hx.Bad("", "merging %d documents gives %s, the left fold of the binary merge is %s: expr=%s input=%s", len(docs), got.JSON(), acc.JSON(), expr, in)
		}
		// every input document reads the same after the merge
		e2 := "(" + expr + ") as $m | ($m | .. |= \"X\") as $junk | ."
		o2 := hx.Run(e2, in, hx.Opts{In: "json", Out: "json", IndentSet: true, Indent: 0, EvalAll: true})
		if v := fail(o2, e2, in); v != nil {
			return *v
		}
		vs, perr := model.ParseJSONStream(o2.Out)
		if !o2.OK() || perr != nil || len(vs) != len(docs) {
			return hx.Bad("", "documents unreadable after the merge: %q %v (%d of %d)", o2.Err, perr, len(vs), len(docs))
		}
		for i := range vs {
			if !model.Equal(vs[i], docs[i]) {
				return hx.Bad("", "input document %d changed by the multi-document merge: %s vs %s: expr=%s", i, vs[i].JSON(), docs[i].JSON(), e2)
			}
		}
	}
	if st.conflict {
		labels = append(labels, "kind_conflict")
	}
	if st.deepCommon {
		labels = append(labels, "deep_common_key")
	}
	return hx.OK(st.conflict || st.deepCommon, fmt.Sprint(c.Docs, c.Flags, c.Form), labels...)
}

func hasSeq(v *model.Value) bool {
	found := false
	v.Walk(func(x *model.Value) {
		if x.K == model.Seq && len(x.Elem) > 1 {
			found = true
		}
	})
	return found
}

func reverseSeqs(v *model.Value) *model.Value {
	switch v.K {
	case model.Seq:
		o := model.NewSeq()
		for i := len(v.Elem) - 1; i >= 0; i-- {
			o.Elem = append(o.Elem, reverseSeqs(v.Elem[i]))
		}
		return o
	case model.Map:
		o := model.NewMap()
		for i, k := range v.Keys {
			o.Keys = append(o.Keys, k)
			o.Vals = append(o.Vals, reverseSeqs(v.Vals[i]))
		}
		return o
	}
	return v
}

func js(v *model.Value) string {
	if v == nil {
		return "<no result>"
	}
	return v.JSON()
}

func TestProp(t *testing.T) {
	hx.RunProperty(t, hx.NewSub("merge", 6000, 50000, genCase, check), hx.NewSub("anchored", 1500, 10000, genAnch, checkAnch))
}
