package c05

import (
	"fmt"
	"os"
	"sort"
	"strings"
	"testing"

	yaml "gopkg.in/yaml.v3"
	"pgregory.net/rapid"
	"verif/gen"
	"verif/hx"
	"verif/model"
)

const rule = "case = a YAML stream of 1-4 documents printed by the harness's own emitter from a generated ground-truth tree (block/flow nesting, all five scalar styles, look-alike strings, unicode/escapes/multi-line text, head/line/trailing comments, anchors+aliases, explicit and custom tags, documents with and without `---`, leading comment block). " +
	"soundness gate: yaml.v2 and goccy/go-yaml must both read the generated text as the ground-truth data. " +
	"oracle: (a) `yq .` output read by the same two independent readers equals the ground truth (document count, structure, resolved types, key order); (b) comments (multiset), per-node scalar style class, collection flow/block style, anchors, alias targets and explicit tags read from the output's node tree equal the ground truth; (c) `yq .` of the output is byte-identical to the output. " +
	"non-trivial = the stream has >= 2 of {comment, non-plain scalar, flow collection, anchor/alias, custom tag, > 1 document}; distinct by text Sub header_only: a stream that holds only comment lines (short last lines of 1-3 bytes, blank lines and `---` between blocks, with or without a final line end) is printed as it is; in sub identity no empty comment line may appear that the input does not have."

func TestMain(m *testing.M) {
	hx.Main(m, "C05", rule,
		"layout that is neither data nor style is not compared: blank lines, indentation width, folding points, spaces before #",
		"plain scalars on which YAML 1.1 and 1.2 disagree (yes/no/on/off, 0777, sexagesimal, 1_000) are generated only quoted",
		"top-level scalar documents are evaluated with --unwrapScalar=false",
		"comment positions are the ones the generator emits: above a map entry or sequence item, after a scalar value, before the first document, after the last entry")
}

type Case struct {
	Docs []*gen.YDoc `json:"docs"`
	Text string      `json:"text"`
}

func genCase(t *rapid.T) Case {
	o := gen.YOpts{Depth: rapid.IntRange(1, 3).Draw(t, "depth"), Comments: rapid.IntRange(0, 3).Draw(t, "com") > 0, Anchors: rapid.Bool().Draw(t, "anch"),
		Tags: rapid.Bool().Draw(t, "tags"), Flow: rapid.Bool().Draw(t, "flow"), Blocks: rapid.Bool().Draw(t, "blocks")}
	docs := gen.StyledStream(t, o, 3)
	// now and then a comment line longer than the usual line buffers (64 KiB), before the stream and after it
	if rapid.IntRange(0, 39).Draw(t, "longcomment") == 0 {
		long := "blob " + strings.Repeat("x", 66000+rapid.IntRange(0, 9000).Draw(t, "longlen"))
		if rapid.Bool().Draw(t, "longlead") || len(docs) == 0 {
			if docs[0].LeadComment != "" {
				docs[0].LeadComment = long
			}
		} else if last := docs[len(docs)-1]; last.Trail != "" {
			last.Trail = long
		}
	}
	c := Case{Docs: docs, Text: gen.Text(docs)}
	// shapes of the leading comment block of an implicit first document: a blank line after the block (two blocks
	// when the first key has a comment of its own), a byte order mark, an indented first comment, a blank first line
	if d := docs[0]; d.LeadComment != "" && !d.Sep && strings.HasPrefix(c.Text, "# "+d.LeadComment+"\n") {
		rest := c.Text[len("# "+d.LeadComment+"\n"):]
		switch rapid.IntRange(0, 7).Draw(t, "leadshape") {
		case 0:
			c.Text = "# " + d.LeadComment + "\n\n" + rest
		case 1:
			c.Text = "\xef\xbb\xbf# " + d.LeadComment + "\n\n" + rest
		case 2:
			c.Text = "    # " + d.LeadComment + "\n\n" + rest
		case 3:
			// (a line of one or two blanks puts the `#` of the next line inside the decoder's four-byte look-ahead)
			c.Text = rapid.SampledFrom([]string{" ", "  ", "   ", "\t", " \t"}).Draw(t, "wsline") + "\n# " + d.LeadComment + "\n\n" + rest
		case 4:
			c.Text = "\xef\xbb\xbf" + c.Text
		}
	}
	return c
}

type nodeInfo struct {
	kind   string
	style  string
	anchor string
	alias  string
	tag    string
}

func styleName(n *yaml.Node) string {
	switch {
	case n.Style&yaml.LiteralStyle != 0:
		return "literal"
	case n.Style&yaml.FoldedStyle != 0:
		return "folded"
	case n.Style&yaml.SingleQuotedStyle != 0:
		return "single"
	case n.Style&yaml.DoubleQuotedStyle != 0:
		return "double"
	case n.Style&yaml.FlowStyle != 0:
		return "flow"
	}
	return "plain"
}

func collectOut(n *yaml.Node, infos *[]nodeInfo, comments *[]string) {
	add := func(c string) {
		for _, l := range strings.Split(c, "\n") {
			l = strings.TrimSpace(strings.TrimPrefix(strings.TrimSpace(l), "#"))
			if l != "" {
				*comments = append(*comments, l)
			}
		}
	}
	add(n.HeadComment)
	add(n.LineComment)
	add(n.FootComment)
	switch n.Kind {
	case yaml.DocumentNode:
		for _, c := range n.Content {
			collectOut(c, infos, comments)
		}
		return
	case yaml.AliasNode:
		*infos = append(*infos, nodeInfo{kind: "alias", alias: n.Value})
		return
	case yaml.ScalarNode:
		tag := ""
		if n.Style&yaml.TaggedStyle != 0 {
			tag = n.Tag
		}
		*infos = append(*infos, nodeInfo{kind: "scalar", style: styleName(n), anchor: n.Anchor, tag: tag})
	case yaml.MappingNode, yaml.SequenceNode:
		k := "map"
		if n.Kind == yaml.SequenceNode {
			k = "seq"
		}
		st := "block"
		if n.Style&yaml.FlowStyle != 0 {
			st = "flow"
		}
		tag := ""
		if n.Style&yaml.TaggedStyle != 0 {
			tag = n.Tag
		}
		*infos = append(*infos, nodeInfo{kind: k, style: st, anchor: n.Anchor, tag: tag})
		for _, c := range n.Content {
			collectOut(c, infos, comments)
		}
	}
}

func collectTruth(docs []*gen.YDoc) []nodeInfo {
	var infos []nodeInfo
	for _, d := range docs {
		d.Root.Walk(func(n *gen.YN) {
			switch n.K {
			case gen.YAlias:
				infos = append(infos, nodeInfo{kind: "alias", alias: n.TName})
			case gen.YScalar:
				st := []string{"plain", "single", "double", "literal", "folded"}[n.Style]
				infos = append(infos, nodeInfo{kind: "scalar", style: st, anchor: n.Anchor, tag: n.Tag})
			case gen.YMap, gen.YSeq:
				k := "map"
				if n.K == gen.YSeq {
					k = "seq"
				}
				st := "block"
				if n.Flow || n.Len() == 0 {
					st = "flow"
				}
				infos = append(infos, nodeInfo{kind: k, style: st, anchor: n.Anchor, tag: n.Tag})
			}
		})
	}
	return infos
}

func truthData(docs []*gen.YDoc) []*model.Value {
	var out []*model.Value
	for _, d := range docs {
		out = append(out, d.Root.Data())
	}
	return out
}

// sameData compares the readers' view of a text with the ground truth. yaml.v2 is
// mandatory (it loses key order); key order comes from goccy/go-yaml when that
// reader copes with the constructs in this text (it mishandles !!str / custom
// tags, folded scalars and bare top-level scalars in v1.13.3), otherwise from a
// yaml.v3 node walk (recorded under label order_via_yaml_v3).
func sameData(text string, truth []*model.Value, useGoccy bool) (string, bool) {
	v2, err := hx.ReadYAMLv2(text)
	if err != nil {
		return "yaml.v2: " + err.Error(), false
	}
	if len(v2) != len(truth) {
		return fmt.Sprintf("document count: yaml.v2 %d truth %d", len(v2), len(truth)), false
	}
	for i := range truth {
		if !model.EqualTol(v2[i], hx.SortKeys(truth[i]), 1e-15) {
			return fmt.Sprintf("document %d (yaml.v2): %s vs truth %s", i, v2[i].JSON(), hx.SortKeys(truth[i]).JSON()), false
		}
	}
	var ord []*model.Value
	name := "goccy"
	if useGoccy {
		ord, err = hx.ReadYAMLGoccy(text)
	} else {
		name = "yaml.v3 nodes"
		ord, err = hx.YAMLToModel(text)
	}
	if err != nil {
		return name + ": " + err.Error(), false
	}
	if len(ord) != len(truth) {
		return fmt.Sprintf("document count: %s %d truth %d", name, len(ord), len(truth)), false
	}
	for i := range truth {
		if !model.EqualTol(ord[i], truth[i], 1e-15) {
			return fmt.Sprintf("document %d (%s, ordered): %s vs truth %s", i, name, ord[i].JSON(), truth[i].JSON()), false
		}
	}
	return "", true
}

func check(c Case) hx.Verdict {
	gen.Relink(c.Docs)
	truth := truthData(c.Docs)
	for _, tv := range truth {
		if tv.HasDupKeys() {
			return hx.Disc("dup_keys")
		}
	}
	useGoccy := true
	if _, ok := sameData(c.Text, truth, true); !ok {
		useGoccy = false
	}
	if why, ok := sameData(c.Text, truth, useGoccy); !ok {
		if os.Getenv("VERIF_DEBUG_UNSOUND") != "" {
			hx.Note("UNSOUND %s\n%s", why, c.Text)
		}
		return hx.Disc("generator_unsound").WithLabels("unsound:" + strings.SplitN(why, ":", 2)[0])
	}
	unwrap := false
	o := hx.Run(".", c.Text, hx.Opts{Unwrap: &unwrap})
	if o.Crashed() {
		return hx.Bad("panic-site:"+o.PanicSite, "panic %s on %q", o.Panic, c.Text)
	}
	if o.Timeout {
		return hx.Unspec("slow")
	}
	if o.Err != "" {
		return hx.Bad("", "yq rejects a stream both independent readers accept (%s):\n%s", o.Err, c.Text)
	}
	out := o.Out
	// (0) no comment line is invented: the generated comments are never empty
	for _, l := range strings.Split(out, "\n") {
		if t := strings.TrimSpace(l); t == "#" && !strings.Contains(c.Text, "\n"+l+"\n") {
			return hx.Bad("", "the output has an empty comment line %q the input does not have:\ninput:\n%s\noutput:\n%s", l, c.Text, out)
		}
	}
	// (a) data
	if why, ok := sameData(out, truth, useGoccy); !ok {
		return hx.Bad("", "`yq .` changed the data: %s\ninput:\n%s\noutput:\n%s", why, c.Text, out)
	}
	// (b) presentation
	nodes, err := hx.YAMLNodes(out)
	if err != nil {
		return hx.Bad("", "output is not readable: %v\n%s", err, out)
	}
	var infos []nodeInfo
	var comments []string
	for _, n := range nodes {
		collectOut(n, &infos, &comments)
	}
	want := collectTruth(c.Docs)
	wc := gen.Comments(c.Docs)
	sort.Strings(comments)
	swc := append([]string{}, wc...)
	sort.Strings(swc)
	if strings.Join(comments, "\x00") != strings.Join(swc, "\x00") {
		return hx.Bad("", "comments differ: output has %q, input has %q\ninput:\n%s\noutput:\n%s", comments, swc, c.Text, out)
	}
	if len(infos) != len(want) {
		return hx.Bad("", "node count differs: %d vs %d\ninput:\n%s\noutput:\n%s", len(infos), len(want), c.Text, out)
	}
	var truthNodes []*gen.YN
	for _, d := range c.Docs {
		d.Root.Walk(func(n *gen.YN) { truthNodes = append(truthNodes, n) })
	}
	for i := range want {
		if infos[i] != want[i] {
			sig := ""
			w, g := want[i], infos[i]
			if w.kind == "scalar" && g.kind == "scalar" && g.style == "double" && (w.style == "single" || w.style == "plain") && w.anchor == g.anchor && w.tag == g.tag && hasNonBMP(truthNodes[i].S) {
				sig = "deviant:nonbmp-requoted"
			}
			return hx.Bad(sig, "node %d presentation differs: output %+v, input %+v\ninput:\n%s\noutput:\n%s", i, infos[i], want[i], c.Text, out)
		}
	}
	// (c) idempotence
	o2 := hx.Run(".", out, hx.Opts{Unwrap: &unwrap})
	if !o2.OK() || o2.Out != out {
		sig := ""
		if norm := strings.NewReplacer(",}", "}", ",]", "]"); o2.OK() && norm.Replace(o2.Out) == norm.Replace(out) {
			// a flow collection closed right before a comment the emitter holds for it gets a `,` before its bracket
			sig = "deviant:flow-trailing-comma"
		}
		return hx.Bad(sig, "second pass differs (err %q):\nfirst:\n%s\nsecond:\n%s", o2.Err, out, o2.Out)
	}
	// classification
	feat := 0
	var labels []string
	has := func(l string, b bool) {
		if b {
			feat++
			labels = append(labels, l)
		}
	}
	nonPlain, flow, anch, ctag := false, false, false, false
	for _, w := range want {
		if w.kind == "scalar" && w.style != "plain" {
			nonPlain = true
		}
		if (w.kind == "map" || w.kind == "seq") && w.style == "flow" {
			flow = true
		}
		if w.anchor != "" || w.kind == "alias" {
			anch = true
		}
		if w.tag != "" {
			ctag = true
		}
	}
	has("comments", len(wc) > 0)
	has("non_plain_scalar", nonPlain)
	has("flow_collection", flow)
	has("anchor_alias", anch)
	has("explicit_tag", ctag)
	has("multi_doc", len(c.Docs) > 1)
	if !useGoccy {
		labels = append(labels, "order_via_yaml_v3")
	}
	return hx.OK(feat >= 2, c.Text, labels...)
}

func hasNonBMP(s string) bool {
	for _, r := range s {
		if r > 0xFFFF {
			return true
		}
	}
	return false
}

func TestProp(t *testing.T) {
	hx.RunProperty(t, hx.NewSub("identity", 6000, 40000, genCase, check), hx.NewSub("header_only", 400, 3000, genHeaderOnly, checkHeaderOnly))
}

// ---------------------------------------------------------------------------
// Sub "header_only": a stream that holds comments and nothing else (a file whose content is commented out, a
// licence header on its own) is printed as it is - every line, also a last one of one or two characters, with
// or without a final line end, with blank lines and separators between the comment blocks.

type HeaderCase struct {
	Lines   []string `json:"lines"`
	FinalNL bool     `json:"final_nl"`
}

func genHeaderOnly(t *rapid.T) HeaderCase {
	var c HeaderCase
	n := rapid.IntRange(1, 5).Draw(t, "n")
	for i := 0; i < n; i++ {
		l := rapid.SampledFrom([]string{"# a", "#b", "#", "# licence text", "#x", "# c", "  # indented", "#!shebang", "## two"}).Draw(t, "line")
		if i > 0 && i < n-1 {
			l = rapid.SampledFrom([]string{l, l, l, "", "---"}).Draw(t, "mid")
		}
		c.Lines = append(c.Lines, l)
	}
	c.FinalNL = rapid.Bool().Draw(t, "nl")
	return c
}

func checkHeaderOnly(c HeaderCase) hx.Verdict {
	text := strings.Join(c.Lines, "\n")
	if c.FinalNL {
		text += "\n"
	}
	o := hx.Run(".", text, hx.Opts{})
	if o.Crashed() {
		return hx.Bad("panic-site:"+o.PanicSite, "panic %s on %q", o.Panic, text)
	}
	if o.Err != "" {
		return hx.Bad("", "a stream of comments is rejected (%s): %q", o.Err, text)
	}
	want := strings.TrimRight(text, "\n")
	got := strings.TrimRight(o.Out, "\n")
	if got != want {
		return hx.Bad("", "a stream that holds only comments is not printed as it is: input %q, output %q", text, o.Out)
	}
	short := len(c.Lines[len(c.Lines)-1]) < 4
	return hx.OK(len(c.Lines) >= 2 || short, text, fmt.Sprintf("short_last_line:%v", short), fmt.Sprintf("final_nl:%v", c.FinalNL))
}
