package c06

import (
	"fmt"
	"math"
	"math/big"
	"strings"
	"testing"

	"pgregory.net/rapid"
	"verif/gen"
	"verif/hx"
	"verif/model"
)

const rule = "two case families. (Y->J) a YAML document stream printed from a generated ground-truth tree (string keys; hostile strings: quotes, backslashes, all C0 controls, U+2028/9, non-BMP, HTML characters, look-alikes; integers across the 64-bit boundaries; floats with exponents; .inf/.nan; aliases; nesting) x indent in {0,2,4,7} x unwrap on/off: `yq -o=json` must emit syntactically valid JSON (encoding/json, one value per document) equal to the ground truth (strings to the code point, integers exact, floats by value, key order), or fail when the value is not representable. " +
	"(J->Y->J) a JSON text printed by the harness (integers up to 30 digits, exponent spellings, keys such as \"<<\", \"~\", \"1\"): JSON -> YAML -> JSON returns the original value (numbers as exact rationals). " +
	"non-trivial = a string needing escaping, a number outside +-2^31, depth >= 4 or an alias; distinct by (input text, flags)"

func TestMain(m *testing.M) {
	hx.Main(m, "C06", rule,
		"non-string map keys and YAML-1.1-only plain spellings are not generated; overlapping merge keys belong to C13",
		"integers beyond 64 bit on the YAML side are judged only as 'exact or error'",
		"floats are compared by value after strconv.ParseFloat of both spellings")
}

// ---------------------------------------------------------------------------
// YAML -> JSON

type YJ struct {
	Docs   []*gen.YDoc `json:"docs"`
	Text   string      `json:"text"`
	Indent int         `json:"indent"`
	Unwrap bool        `json:"unwrap"`
	NonRep bool        `json:"nonrep"` // contains .inf / .nan
}

func genYJ(t *rapid.T) YJ {
	o := gen.YOpts{Depth: rapid.IntRange(1, 4).Draw(t, "depth"), Anchors: rapid.Bool().Draw(t, "anch"), Tags: rapid.IntRange(0, 3).Draw(t, "tags") == 0,
		Flow: rapid.Bool().Draw(t, "flow"), Blocks: rapid.Bool().Draw(t, "blocks"), Hostile: true, StrKeys: true, Comments: rapid.IntRange(0, 3).Draw(t, "com") == 0}
	docs := gen.StyledStream(t, o, 2)
	for _, d := range docs {
		d.Root.Walk(func(n *gen.YN) {
			if n.Tag != "" && n.Tag != "!!str" {
				n.Tag = "" // custom tags: what they mean for JSON is not stated
			}
		})
	}
	c := YJ{Docs: docs, Indent: rapid.SampledFrom([]int{0, 2, 4, 7}).Draw(t, "indent"), Unwrap: rapid.Bool().Draw(t, "unwrap")}
	if rapid.IntRange(0, 19).Draw(t, "nonrep") == 0 {
		// plant a non-representable float
		var scalars []*gen.YN
		for _, d := range docs {
			d.Root.Walk(func(n *gen.YN) {
				if n.K == gen.YScalar && n.T == "float" {
					scalars = append(scalars, n)
				}
			})
		}
		if len(scalars) > 0 {
			rapid.SampledFrom(scalars).Draw(t, "victim").S = rapid.SampledFrom([]string{".inf", "-.inf", ".nan", ".Inf", ".NaN"}).Draw(t, "special")
			c.NonRep = true
		}
	}
	c.Text = gen.Text(docs)
	return c
}

func checkYJ(c YJ) hx.Verdict {
	gen.Relink(c.Docs)
	var truth []*model.Value
	for _, d := range c.Docs {
		v := d.Root.Data()
		if v.HasDupKeys() {
			return hx.Disc("dup_keys")
		}
		truth = append(truth, v)
	}
	if !c.NonRep {
		// soundness gate: an independent YAML reader reads the text as the truth
		v2, err := hx.ReadYAMLv2(c.Text)
		if err != nil || len(v2) != len(truth) {
			return hx.Disc("generator_unsound")
		}
		for i := range truth {
			if !model.EqualTol(v2[i], hx.SortKeys(truth[i]), 1e-15) {
				return hx.Disc("generator_unsound")
			}
		}
	}
	o := hx.Run(".", c.Text, hx.Opts{Out: "json", Indent: c.Indent, IndentSet: true, Unwrap: &c.Unwrap})
	if o.Crashed() {
		return hx.Bad("panic-site:"+o.PanicSite, "panic %s on %q", o.Panic, c.Text)
	}
	if o.Timeout {
		return hx.Unspec("slow")
	}
	if c.NonRep {
		if o.Err == "" {
			return hx.Bad("", "a value JSON cannot represent (.inf/.nan) was converted without an error: input %q output %q", c.Text, o.Out)
		}
		return hx.OK(true, c.Text, "non_representable_error")
	}
	if o.Err != "" {
		beyond := false
		for _, v := range truth {
			v.Walk(func(x *model.Value) {
				if x.K == model.Int && !x.I.IsInt64() {
					beyond = true
				}
			})
		}
		if beyond {
			// yq's node model has no integer wider than 64 bit: the statement allows an error, not another value
			return hx.OK(true, c.Text, "beyond_int64_error")
		}
		return hx.Bad("", "conversion to JSON failed (%s): %q", o.Err, c.Text)
	}
	out := o.Out
	var got []*model.Value
	var err error
	if c.Unwrap {
		// with unwrapScalar a top-level string is printed raw: judge those documents by text
		allScalarStr := true
		for _, tv := range truth {
			if tv.K != model.Str {
				allScalarStr = false
			}
		}
		if allScalarStr {
			var want strings.Builder
			for _, tv := range truth {
				want.WriteString(tv.S + "\n")
			}
			if out != want.String() {
				return hx.Bad("", "unwrapped top-level strings printed as %q, expected %q", out, want.String())
			}
			return hx.OK(false, c.Text, "unwrapped_strings")
		}
		for _, tv := range truth {
			if tv.K == model.Str {
				return hx.Unspec("mixed_unwrapped_stream")
			}
		}
	}
	got, err = model.ParseJSONStream(out)
	if err != nil {
		return hx.Bad("", "output is not valid JSON (%v): %q from %q", err, out, c.Text)
	}
	if len(got) != len(truth) {
		return hx.Bad("", "expected %d JSON values, got %d: %q from %q", len(truth), len(got), out, c.Text)
	}
	for i := range truth {
		if got[i].HasDupKeys() {
			return hx.Bad("", "JSON output has duplicate keys: %q", out)
		}
		if !model.EqualTol(got[i], truth[i], 1e-15) {
			return hx.Bad(sigForYAML(truth[i], got[i]), "document %d: JSON %s differs from the YAML value %s\ninput:\n%s", i, got[i].JSON(), truth[i].JSON(), c.Text)
		}
		if why := exactNumbers(got[i], truth[i]); why != "" {
			return hx.Bad(sigForYAML(truth[i], got[i]), "document %d: %s\ninput:\n%s\noutput:\n%s", i, why, c.Text, out)
		}
	}
	// indent: every nested line is indented by a multiple of the requested indent
	if c.Indent > 0 {
		for _, l := range strings.Split(out, "\n") {
			trimmed := strings.TrimLeft(l, " ")
			if n := len(l) - len(trimmed); n%c.Indent != 0 && !strings.HasPrefix(trimmed, "\"") {
				return hx.Bad("", "line indented by %d with -I=%d: %q", n, c.Indent, l)
			}
		}
	} else if strings.Count(strings.TrimRight(out, "\n"), "\n")+1 != len(truth) {
		return hx.Bad("", "-I=0 must print one line per document: %q", out)
	}
	return hx.OK(nontrivial(truth, c.Text), fmt.Sprint(c.Text, c.Indent, c.Unwrap), fmt.Sprintf("indent:%d", c.Indent), fmt.Sprintf("unwrap:%v", c.Unwrap))
}

// exactNumbers: integers must keep their kind and exact value.
func exactNumbers(got, want *model.Value) string {
	if want.K == model.Int {
		if got.K != model.Int || got.I.Cmp(want.I) != 0 {
			return fmt.Sprintf("integer %s became %s", want.I.String(), got.JSON())
		}
	}
	for i := range want.Elem {
		if w := exactNumbers(got.Elem[i], want.Elem[i]); w != "" {
			return w
		}
	}
	for i := range want.Vals {
		if w := exactNumbers(got.Vals[i], want.Vals[i]); w != "" {
			return w
		}
	}
	return ""
}

func nontrivial(vs []*model.Value, text string) bool {
	nt := strings.Contains(text, "*")
	for _, v := range vs {
		if v.Depth() >= 4 {
			nt = true
		}
		v.Walk(func(x *model.Value) {
			if x.K == model.Str {
				for _, r := range x.S {
					if r < 0x20 || r == '"' || r == '\\' || r > 0x7e {
						nt = true
					}
				}
			}
			if x.K == model.Int && (x.I.BitLen() > 31) {
				nt = true
			}
		})
	}
	return nt
}

// ---------------------------------------------------------------------------
// JSON -> YAML -> JSON

type JYJ struct {
	JSON string `json:"json"`
}

type jgen struct{ t *rapid.T }

func (g jgen) number() string {
	t := g.t
	switch rapid.IntRange(0, 9).Draw(t, "nk") {
	case 0, 1:
		return fmt.Sprint(rapid.IntRange(-1000, 1000).Draw(t, "small"))
	case 2:
		return rapid.SampledFrom([]string{"9007199254740991", "9007199254740992", "9007199254740993", "-9007199254740993", "9223372036854775807", "-9223372036854775808", "9223372036854775808", "18446744073709551615", "18446744073709551616", "123456789012345678901234567890", "-123456789012345678901234567890"}).Draw(t, "edge")
	case 3:
		n := new(big.Int).Lsh(big.NewInt(1), uint(rapid.IntRange(30, 70).Draw(t, "bits")))
		n.Add(n, big.NewInt(int64(rapid.IntRange(-2, 2).Draw(t, "off"))))
		if rapid.Bool().Draw(t, "neg") {
			n.Neg(n)
		}
		return n.String()
	case 4, 5:
		return rapid.SampledFrom([]string{"0.5", "1.5", "-2.25", "0.1", "3.141592653589793", "1e3", "1E3", "1e+3", "2.5e-7", "1e22", "1e23", "1.7976931348623157e308", "5e-324", "-0.0", "0.0", "100.0", "1.0", "123456.789e3"}).Draw(t, "float")
	default:
		return fmt.Sprint(rapid.Int64().Draw(t, "i64"))
	}
}

func (g jgen) str() string {
	return rapid.SampledFrom([]string{"", "a", "a b", "<<", "~", "1", "true", "null", "1e3", "0x1F", "é", "😀", "line\nbreak", "tab\t", "quote\"", "back\\slash", "\u0000", "\u001f", "\u007f", " ", "<a href='x'>&amp;</a>", " lead", "trail ", "# c", "- d", "k: v", "*a", "&a", "!t", "[", "{", "|", ">", "%", "@", "`", "'", "2021-01-01", "12:30:45", "0o7", "0b1", "+1", ".5", "1_000", ".inf", ".nan", "yes", "no", "on", "off", "y", "n"}).Draw(g.t, "str")
}

func (g jgen) value(depth int) string {
	t := g.t
	k := rapid.IntRange(0, 9).Draw(t, "vk")
	if depth <= 0 && k >= 6 {
		k %= 6
	}
	switch {
	case k == 0:
		return rapid.SampledFrom([]string{"null", "true", "false"}).Draw(t, "kw")
	case k <= 2:
		return g.number()
	case k <= 5:
		return model.QuoteJSON(g.str())
	case k <= 7:
		var parts []string
		seen := map[string]bool{}
		for i := rapid.IntRange(0, 4).Draw(t, "mn"); i > 0; i-- {
			key := g.str()
			if seen[key] {
				continue
			}
			seen[key] = true
			parts = append(parts, model.QuoteJSON(key)+":"+g.value(depth-1))
		}
		return "{" + strings.Join(parts, ",") + "}"
	default:
		var parts []string
		for i := rapid.IntRange(0, 4).Draw(t, "sn"); i > 0; i-- {
			parts = append(parts, g.value(depth-1))
		}
		return "[" + strings.Join(parts, ",") + "]"
	}
}

func genJYJ(t *rapid.T) JYJ {
	return JYJ{JSON: jgen{t}.value(rapid.IntRange(0, 4).Draw(t, "depth"))}
}

// exactEqual compares numbers as exact rationals (1e3 == 1000, 1.0 == 1) and everything else exactly.
func exactEqual(a, b *model.Value) bool {
	if a.IsNumber() && b.IsNumber() {
		ra, rb := a.Rat(), b.Rat()
		if ra == nil || rb == nil {
			return false
		}
		return ra.Cmp(rb) == 0
	}
	if a.K != b.K {
		return false
	}
	switch a.K {
	case model.Seq:
		if len(a.Elem) != len(b.Elem) {
			return false
		}
		for i := range a.Elem {
			if !exactEqual(a.Elem[i], b.Elem[i]) {
				return false
			}
		}
		return true
	case model.Map:
		if len(a.Keys) != len(b.Keys) {
			return false
		}
		for i := range a.Keys {
			if a.Keys[i] != b.Keys[i] || !exactEqual(a.Vals[i], b.Vals[i]) {
				return false
			}
		}
		return true
	}
	return model.Equal(a, b)
}

// floatEqual: like exactEqual but numbers are compared as float64 (the deviant value is a float
// whose decimal spelling on the way out is itself not exact).
func floatEqual(a, b *model.Value) bool {
	if a.IsNumber() && b.IsNumber() {
		return a.Num() == b.Num()
	}
	if a.K != b.K {
		return false
	}
	switch a.K {
	case model.Seq:
		if len(a.Elem) != len(b.Elem) {
			return false
		}
		for i := range a.Elem {
			if !floatEqual(a.Elem[i], b.Elem[i]) {
				return false
			}
		}
		return true
	case model.Map:
		if len(a.Keys) != len(b.Keys) {
			return false
		}
		for i := range a.Keys {
			if a.Keys[i] != b.Keys[i] || !floatEqual(a.Vals[i], b.Vals[i]) {
				return false
			}
		}
		return true
	}
	return model.Equal(a, b)
}

func checkJYJ(c JYJ) hx.Verdict {
	orig, err := model.ParseJSON(c.JSON)
	if err != nil {
		return hx.Disc("bad_json")
	}
	// a JSON number is the decimal it spells; the float64 nearest to it is what a float carries
	unwrap := false
	y := hx.Run(".", c.JSON, hx.Opts{In: "json", Out: "yaml", Unwrap: &unwrap})
	if y.Crashed() {
		return hx.Bad("panic-site:"+y.PanicSite, "panic %s on %s", y.Panic, c.JSON)
	}
	if y.Err != "" {
		return hx.Bad("", "valid JSON rejected (%s): %s", y.Err, c.JSON)
	}
	j := hx.Run(".", y.Out, hx.Opts{In: "yaml", Out: "json", IndentSet: true, Indent: 0, Unwrap: &unwrap})
	if j.Crashed() {
		return hx.Bad("panic-site:"+j.PanicSite, "panic %s on %q", j.Panic, y.Out)
	}
	if j.Err != "" {
		return hx.Bad("", "YAML produced from JSON cannot be converted back (%s): json=%s yaml=%q", j.Err, c.JSON, y.Out)
	}
	back, err := model.ParseJSON(strings.TrimSpace(j.Out))
	if err != nil {
		return hx.Bad("", "round trip output is not one JSON value (%v): %q (yaml %q) from %s", err, j.Out, y.Out, c.JSON)
	}
	if !exactEqual(back, orig) {
		return hx.Bad(sigFor(orig, back, true), "JSON -> YAML -> JSON changed the value: %s became %s (yaml %q)", c.JSON, back.JSON(), y.Out)
	}
	// direct JSON -> JSON as well
	d := hx.Run(".", c.JSON, hx.Opts{In: "json", Out: "json", IndentSet: true, Indent: 0, Unwrap: &unwrap})
	if d.OK() {
		dv, err := model.ParseJSON(strings.TrimSpace(d.Out))
		if err != nil || !exactEqual(dv, orig) {
			return hx.Bad(sigFor(orig, dv, false), "JSON -> JSON changed the value: %s became %q", c.JSON, d.Out)
		}
	}
	return hx.OK(nontrivial([]*model.Value{orig}, ""), c.JSON, "jyj")
}

// sigFor recognises the two open findings by a deviant reference: the result equals the
// original with (a) every integer beyond int64 replaced by its float64 rounding and, on the
// YAML leg only, (b) every "<<" entry dropped - and with nothing else changed.
func sigFor(orig, got *model.Value, viaYAML bool) string {
	if got == nil {
		return ""
	}
	usedBig, usedMerge := false, false
	var dev func(v *model.Value) *model.Value
	dev = func(v *model.Value) *model.Value {
		switch v.K {
		case model.Int:
			if !v.I.IsInt64() {
				usedBig = true
				f, _ := new(big.Float).SetInt(v.I).Float64()
				return model.NewFloat(f)
			}
		case model.Seq:
			o := model.NewSeq()
			for _, e := range v.Elem {
				o.Elem = append(o.Elem, dev(e))
			}
			return o
		case model.Map:
			o := model.NewMap()
			for i, k := range v.Keys {
				if k == "<<" && viaYAML {
					usedMerge = true
					continue
				}
				o.Keys = append(o.Keys, k)
				o.Vals = append(o.Vals, dev(v.Vals[i]))
			}
			return o
		}
		return v
	}
	d := dev(orig)
	if !floatEqual(d, got) {
		return ""
	}
	switch {
	case usedBig && usedMerge:
		return "deviant:json-bigint-and-merge-key"
	case usedBig:
		return "deviant:json-int-beyond-int64"
	case usedMerge:
		return "deviant:json-merge-key-string"
	}
	return ""
}

// sigForYAML recognises the YAML leg of the open big-integer finding: a plain integer below -2^63 or above 2^64-1 is
// typed !!float by the YAML reader and comes out as its float64 rounding. Integers from 2^63 to 2^64-1 are typed
// !!int and must be exact or an error: they are not part of the finding.
func sigForYAML(orig, got *model.Value) string {
	used := false
	lo := new(big.Int).SetInt64(math.MinInt64)
	hi := new(big.Int).SetUint64(math.MaxUint64)
	var dev func(v *model.Value) *model.Value
	dev = func(v *model.Value) *model.Value {
		switch v.K {
		case model.Int:
			if v.I.Cmp(lo) < 0 || v.I.Cmp(hi) > 0 {
				used = true
				f, _ := new(big.Float).SetInt(v.I).Float64()
				return model.NewFloat(f)
			}
		case model.Seq:
			o := model.NewSeq()
			for _, e := range v.Elem {
				o.Elem = append(o.Elem, dev(e))
			}
			return o
		case model.Map:
			o := model.NewMap()
			for i, k := range v.Keys {
				o.Keys = append(o.Keys, k)
				o.Vals = append(o.Vals, dev(v.Vals[i]))
			}
			return o
		}
		return v
	}
	d := dev(orig)
	if used && floatEqual(d, got) {
		return "deviant:yaml-int-beyond-uint64"
	}
	return ""
}

var _ = math.Inf

func TestProp(t *testing.T) {
	hx.RunProperty(t,
		hx.NewSub("yaml_to_json", 8000, 50000, genYJ, checkYJ),
		hx.NewSub("json_yaml_json", 8000, 50000, genJYJ, checkJYJ),
	)
}
