package c07

import (
	"fmt"
	"strings"
	"testing"

	yaml "gopkg.in/yaml.v3"
	"pgregory.net/rapid"
	"verif/gen"
	"verif/hx"
	"verif/ref"
)

const rule = "case = (one commented / styled YAML document from the C05 generator, an update u aimed by construction at a node (or the children of a container): scalar replace, subtree replace, delete, append, arithmetic / string relative update, key creation, multi-target assignment). " +
	"oracle (differential, same reader on both sides): a table path -> (head/line/foot comments of the key and the value node, scalar or collection style, anchor, explicit tag, kind, scalar text, position among siblings) is read with the yaml.v3 node API from the output of `yq .` and of `yq u`; every path outside the footprint (the targets, their descendants and - for delete/append/key creation - the parent container's own row, with sibling positions after a deletion shifted) must have an identical row, no path may appear or disappear outside the footprint, and the document prefix (leading comments, ---) must be byte-identical. " +
	"non-trivial = >= 3 rows outside the footprint carry a comment, a non-default style or an anchor, and the outputs differ; distinct by (text, u)"

func TestMain(m *testing.M) {
	hx.Main(m, "C07", rule,
		"presentation inside the footprint is not compared (the statement constrains only the outside)",
		"documents in which an alias outside the footprint refers to an anchor inside it are skipped (the alias legitimately changes)",
		"yaml.v3's attachment of comments to nodes is used on both sides of the comparison, so its quirks cancel")
}

type Case struct {
	Doc    *gen.YDoc `json:"doc"`
	Text   string    `json:"text"`
	Path   []string  `json:"path"` // "#i" = index
	Kind   string    `json:"kind"` // replace_scalar | replace_tree | delete | append | relative | create_key | multi
	Update string    `json:"update"`
}

type tnode struct {
	n    *gen.YN
	path []string
}

func collect(n *gen.YN, p []string, out *[]tnode) {
	*out = append(*out, tnode{n, append([]string{}, p...)})
	if n.K == gen.YMap {
		for i, k := range n.Keys {
			if k.Merge || !gen.SafeStr(k.S) {
				continue
			}
			collect(n.Vals[i], append(p, k.S), out)
		}
	}
	if n.K == gen.YSeq {
		for i, e := range n.Elem {
			collect(e, append(p, fmt.Sprintf("\x00#%d", i)), out)
		}
	}
}

func pathExpr(p []string) string {
	if len(p) == 0 {
		return "."
	}
	var b strings.Builder
	for _, st := range p {
		var idx int
		if strings.HasPrefix(st, "\x00#") {
			fmt.Sscanf(st, "\x00#%d", &idx)
			fmt.Fprintf(&b, ".[%d]", idx)
		} else {
			b.WriteString(".[" + ref.QuoteYq(st) + "]")
		}
	}
	return b.String()
}

func genCase(t *rapid.T) Case {
	o := gen.YOpts{Depth: rapid.IntRange(2, 3).Draw(t, "depth"), Comments: true, Anchors: rapid.Bool().Draw(t, "anch"), Tags: rapid.IntRange(0, 3).Draw(t, "tags") == 0,
		Flow: rapid.Bool().Draw(t, "flow"), Blocks: rapid.Bool().Draw(t, "blocks"), StrKeys: true, LineOnFlow: rapid.Bool().Draw(t, "lineonflow")}
	docs := gen.StyledStream(t, o, 1)
	d := docs[0]
	// now and then a collection written on one line that holds entries and carries a line comment (rare in the
	// generated trees): the target of a key creation / an element created by its index
	var planted *gen.YN
	if d.Root.K == gen.YMap && !d.Root.Flow && len(d.Root.Keys) > 0 && rapid.IntRange(0, 7).Draw(t, "plant") == 0 {
		planted = &gen.YN{K: gen.YMap, Flow: true, Line: "planted note",
			Keys: []*gen.YN{{K: gen.YScalar, T: "str", S: "x"}, {K: gen.YScalar, T: "str", S: "y"}}, Vals: []*gen.YN{{K: gen.YScalar, T: "int", S: "1"}, {K: gen.YScalar, T: "str", S: "two"}}}
		if rapid.Bool().Draw(t, "plantseq") {
			planted = &gen.YN{K: gen.YSeq, Flow: true, Line: "planted note", Elem: []*gen.YN{{K: gen.YScalar, T: "int", S: "1"}, {K: gen.YScalar, T: "str", S: "two"}}}
		}
		pos := rapid.IntRange(0, len(d.Root.Keys)).Draw(t, "plantpos")
		key := &gen.YN{K: gen.YScalar, T: "str", S: "zz_planted"}
		d.Root.Keys = append(d.Root.Keys[:pos], append([]*gen.YN{key}, d.Root.Keys[pos:]...)...)
		d.Root.Vals = append(d.Root.Vals[:pos], append([]*gen.YN{planted}, d.Root.Vals[pos:]...)...)
	}
	c := Case{Doc: d, Text: gen.Text(docs)}
	if planted != nil && rapid.IntRange(0, 2).Draw(t, "useplanted") > 0 {
		c.Path = []string{"zz_planted"}
		val := rapid.SampledFrom([]string{`"new"`, `42`}).Draw(t, "plval")
		if planted.K == gen.YSeq {
			c.Kind, c.Update = "append", rapid.SampledFrom([]string{`.["zz_planted"][2] = ` + val, `.["zz_planted"] += [` + val + `]`, `.zz_planted.2 = ` + val}).Draw(t, "plupd")
		} else {
			c.Kind, c.Update = "create_key", rapid.SampledFrom([]string{`.["zz_planted"].["zz_new"] = ` + val, `.zz_planted.zz_new = ` + val, `.["zz_planted"] += {"zz_new": ` + val + `}`}).Draw(t, "plupd")
		}
		return c
	}
	var nodes []tnode
	collect(d.Root, nil, &nodes)
	// candidates: everything but the root and alias nodes
	var cands []tnode
	for _, x := range nodes {
		if len(x.path) > 0 && x.n.K != gen.YAlias {
			cands = append(cands, x)
		}
	}
	if len(cands) == 0 {
		c.Kind, c.Update = "create_key", `.["zz_new"] = "v"`
		if d.Root.K != gen.YMap {
			c.Update = `. += ["v"]`
			c.Kind = "append"
		}
		return c
	}
	x := rapid.SampledFrom(cands).Draw(t, "target")
	// a collection written on one line that carries a line comment is the interesting target of a replacement by
	// a block collection (of its own or of the other kind), of an append and of a key creation: take one half of the time
	var oneLine []tnode
	for _, y := range cands {
		if (y.n.K == gen.YMap || y.n.K == gen.YSeq) && y.n.Line != "" {
			oneLine = append(oneLine, y)
		}
	}
	var oneLineFull []tnode
	for _, y := range oneLine {
		if y.n.Len() > 0 {
			oneLineFull = append(oneLineFull, y)
		}
	}
	if len(oneLine) > 0 && rapid.Bool().Draw(t, "onelinetarget") {
		x = rapid.SampledFrom(oneLine).Draw(t, "oltarget")
		if len(oneLineFull) > 0 && rapid.IntRange(0, 2).Draw(t, "olfull") > 0 {
			x = rapid.SampledFrom(oneLineFull).Draw(t, "olfulltarget") // one that already holds entries
		}
		c.Path = x.path
		p := pathExpr(x.path)
		val := rapid.SampledFrom([]string{`"new"`, `42`, `true`}).Draw(t, "olval")
		switch rapid.SampledFrom([]int{0, 1, 2, 3, 4, 4, 4, 5}).Draw(t, "olkind") {
		case 0:
			c.Kind, c.Update = "replace_tree", p+` = {"m": 1, "l": [1, 2]}`
		case 1:
			c.Kind, c.Update = "replace_tree", p+` = ["x", {"y": 2}]`
		case 2:
			c.Kind, c.Update = "replace_tree", p+` |= {"m": 1}`
		case 3:
			if x.n.K == gen.YSeq {
				c.Kind, c.Update = "append", p+" += ["+val+"]"
			} else {
				c.Kind, c.Update = "create_key", p+` += {"zz_new": `+val+"}"
			}
		case 4:
			if x.n.K == gen.YSeq {
				c.Kind, c.Update = "append", p+" |= . + ["+val+"]"
				if rapid.Bool().Draw(t, "byindex") {
					c.Update = fmt.Sprintf("%s[%d] = %s", p, x.n.Len(), val) // the element just past the end, created by its index
				}
			} else {
				c.Kind, c.Update = "create_key", p+`.["zz_new"] = `+val
			}
		default:
			c.Kind, c.Update = "replace_scalar", p+" = "+val
		}
		return c
	}
	if d.Root.K == gen.YMap && (x.n.K == gen.YMap || x.n.K == gen.YSeq) && x.n.Len() > 0 && rapid.IntRange(0, 3).Draw(t, "copyedit") == 0 {
		// copy a subtree elsewhere, then edit the copy: the source is outside the target
		step := ".[0]"
		if x.n.K == gen.YMap {
			step = ".[" + ref.QuoteYq(x.n.Keys[0].S) + "]"
			if !gen.SafeStr(x.n.Keys[0].S) || x.n.Keys[0].Merge {
				step = `.["zz_k"]`
			}
		}
		c.Path = []string{"zz_copy"}
		c.Kind = "copy_edit"
		c.Update = `.["zz_copy"] = ` + pathExpr(x.path) + ` | .["zz_copy"]` + step + ` = 9999`
		return c
	}
	if len(cands) >= 2 && rapid.IntRange(0, 11).Draw(t, "unionupd") == 0 {
		// two updates joined by `,`: both work on the document in place, which is printed once (as `u1 | u2` prints it)
		y := rapid.SampledFrom(cands).Draw(t, "target2")
		mk := func(z tnode, label string) string {
			pz := pathExpr(z.path)
			switch rapid.IntRange(0, 2).Draw(t, label) {
			case 0:
				return "del(" + pz + ")"
			case 1:
				return "(" + pz + ` = "u")`
			default:
				return "(" + pz + ` style="")`
			}
		}
		c.Kind = "union_updates"
		c.Path = nil
		c.Update = mk(x, "uk1") + ", " + mk(y, "uk2")
		return c
	}
	c.Path = x.path
	p := pathExpr(x.path)
	val := rapid.SampledFrom([]string{`"new"`, `42`, `true`, `null`, `"multi word"`, `1.5`}).Draw(t, "val")
	var kinds []string
	switch x.n.K {
	case gen.YScalar:
		kinds = []string{"replace_scalar", "replace_tree", "delete", "relative"}
	case gen.YMap:
		kinds = []string{"replace_scalar", "replace_tree", "delete", "create_key", "multi"}
	case gen.YSeq:
		kinds = []string{"replace_scalar", "replace_tree", "delete", "append", "multi", "delete_nothing", "delete_nothing", "read_missing"}
	}
	if x.n.K == gen.YMap {
		kinds = append(kinds, "delete_nothing")
	}
	c.Kind = rapid.SampledFrom(kinds).Draw(t, "kind")
	switch c.Kind {
	case "replace_scalar":
		c.Update = p + " = " + val
	case "replace_tree":
		op := rapid.SampledFrom([]string{" = ", " = ", " |= "}).Draw(t, "treeop")
		c.Update = p + op + `{"m": 1, "l": [1, 2]}`
		if rapid.Bool().Draw(t, "seqtree") {
			c.Update = p + op + `["x", {"y": 2}]`
		}
	case "delete_nothing":
		// the selection is empty: nothing may change, in particular the container is not padded up to the index
		if x.n.K == gen.YSeq {
			n := x.n.Len()
			c.Update = fmt.Sprintf("del(%s[%d])", p, n+rapid.IntRange(0, 4).Draw(t, "beyond"))
			switch rapid.IntRange(0, 3).Draw(t, "dnform") {
			case 0:
				c.Update = fmt.Sprintf("del(%s[%d], %s[%d])", p, n, p, n+3) // the first index past the end, and one further out
			case 1:
				if p != "." {
					c.Update = fmt.Sprintf("del(%s.%d)", p, n+rapid.IntRange(0, 4).Draw(t, "beyond2")) // dotted index
				}
			}
		} else {
			c.Update = "del(" + p + `.["zz_missing"])`
		}
	case "read_missing":
		// reading past the end on the right-hand side: the only change is the new key
		c.Update = fmt.Sprintf(`.["zz_new"] = %s[%d]`, p, x.n.Len()+rapid.IntRange(0, 4).Draw(t, "beyond"))
		if p != "." && rapid.Bool().Draw(t, "dotted") {
			c.Update = fmt.Sprintf(`.["zz_new"] = %s.%d`, p, x.n.Len()+rapid.IntRange(0, 4).Draw(t, "beyond2"))
		}
		if d.Root.K != gen.YMap {
			c.Kind = "delete_nothing"
			c.Update = fmt.Sprintf("del(%s[%d])", p, x.n.Len())
		}
	case "delete":
		c.Update = "del(" + p + ")"
	case "append":
		c.Update = p + " += [" + val + "]"
	case "create_key":
		c.Update = p + `.["zz_new"] = ` + val
		if rapid.IntRange(0, 2).Draw(t, "ckplus") == 0 {
			c.Update = p + ` += {"zz_new": ` + val + "}" // the same through the sum of two maps
		}
	case "relative":
		// the relative update in its two spellings: `|= . op v` and the compound `op= v`
		compound := rapid.Bool().Draw(t, "compound")
		switch x.n.T {
		case "int", "float":
			c.Update = p + " |= . + 1"
			if compound {
				c.Update = p + rapid.SampledFrom([]string{" += 1", " -= 1", " *= 2"}).Draw(t, "cop")
			}
		case "str":
			c.Update = p + ` |= . + "_s"`
			if compound {
				c.Update = p + ` += "_s"`
			}
		default:
			c.Update = p + " |= " + val
		}
	case "multi":
		c.Update = p + ".[] = " + val
	}
	return c
}

var oneLineEntries int

type row struct {
	KHead, KLine, KFoot string
	Head, Line, Foot    string
	Kind                string
	Style               string
	Anchor              string
	Tag                 string
	Value               string
	Idx                 int
}

func styleOf(n *yaml.Node) string {
	var s []string
	if n.Style&yaml.DoubleQuotedStyle != 0 {
		s = append(s, "double")
	}
	if n.Style&yaml.SingleQuotedStyle != 0 {
		s = append(s, "single")
	}
	if n.Style&yaml.LiteralStyle != 0 {
		s = append(s, "literal")
	}
	if n.Style&yaml.FoldedStyle != 0 {
		s = append(s, "folded")
	}
	if n.Style&yaml.FlowStyle != 0 {
		s = append(s, "flow")
	}
	return strings.Join(s, "+")
}

func table(n *yaml.Node, path string, idx int, key *yaml.Node, rows map[string]row) {
	// (comments are compared separately and position-agnostically: which node yaml.v3 attaches a
	// comment to depends on what follows it, so rows carry style / anchor / tag / kind / value / position)
	r := row{Style: styleOf(n), Anchor: n.Anchor, Idx: idx}
	if key != nil {
		r.Style += "/key:" + styleOf(key)
	}
	if n.Style&yaml.TaggedStyle != 0 {
		r.Tag = n.Tag
	}
	switch n.Kind {
	case yaml.ScalarNode:
		r.Kind, r.Value = "scalar", n.Tag+" "+n.Value
	case yaml.AliasNode:
		r.Kind, r.Value = "alias", n.Value
	case yaml.MappingNode:
		r.Kind = "map"
	case yaml.SequenceNode:
		r.Kind = "seq"
	}
	rows[path] = r
	switch n.Kind {
	case yaml.MappingNode:
		for i := 0; i+1 < len(n.Content); i += 2 {
			table(n.Content[i+1], path+"/"+n.Content[i].Value, i/2, n.Content[i], rows)
		}
	case yaml.SequenceNode:
		for i, c := range n.Content {
			table(c, fmt.Sprintf("%s/\x00#%d", path, i), i, nil, rows)
		}
	}
}

func tableOf(text string) (map[string]row, string, error) {
	nodes, err := hx.YAMLNodes(text)
	if err != nil {
		return nil, "", err
	}
	if len(nodes) != 1 {
		return nil, "", fmt.Errorf("%d documents", len(nodes))
	}
	rows := map[string]row{}
	doc := nodes[0]
	if len(doc.Content) == 1 {
		table(doc.Content[0], "", 0, nil, rows)
	}
	return rows, doc.HeadComment + "\x00" + doc.FootComment, nil
}

// commentsOf lists the comment lines of a text as the yaml.v3 reader sees them, in document order.
func commentsOf(text string) []string {
	nodes, err := hx.YAMLNodes(text)
	if err != nil {
		return nil
	}
	var out []string
	add := func(c string) {
		for _, l := range strings.Split(c, "\n") {
			l = strings.TrimSpace(strings.TrimPrefix(strings.TrimSpace(l), "#"))
			if l != "" {
				out = append(out, l)
			}
		}
	}
	var rec func(n *yaml.Node)
	rec = func(n *yaml.Node) {
		add(n.HeadComment)
		if n.Kind == yaml.MappingNode {
			for i := 0; i+1 < len(n.Content); i += 2 {
				k, v := n.Content[i], n.Content[i+1]
				add(k.HeadComment)
				add(v.HeadComment)
				add(k.LineComment)
				add(v.LineComment)
				v.HeadComment, v.LineComment = "", ""
				rec(v)
				add(k.FootComment)
			}
			add(n.LineComment) // `{..} # c`: after the content
		} else {
			for _, ch := range n.Content {
				rec(ch)
			}
			add(n.LineComment) // a scalar's, or `[..] # c` after the content
		}
		add(n.FootComment)
	}
	for _, n := range nodes {
		rec(n)
	}
	return out
}

// ownedByFirstKey: comment is the head comment of an enclosing block map (a sequence item) whose
// first-key chain leads to the deleted node.
func ownedByFirstKey(root *gen.YN, path []string, comment string) bool {
	n := root
	for i, st := range path {
		var next *gen.YN
		switch n.K {
		case gen.YMap:
			for j, k := range n.Keys {
				if k.S == st {
					next = n.Vals[j]
				}
			}
		case gen.YSeq:
			var idx int
			if _, err := fmt.Sscanf(st, "\x00#%d", &idx); err == nil && idx < len(n.Elem) {
				next = n.Elem[idx]
			}
		}
		if next == nil {
			return false
		}
		if next.Head == comment && (next.K == gen.YMap || next.K == gen.YSeq) && !next.Flow {
			// the rest of the path must follow first children
			m := next
			ok := true
			for _, st2 := range path[i+1:] {
				switch {
				case m.K == gen.YMap && len(m.Keys) > 0 && m.Keys[0].S == st2:
					m = m.Vals[0]
				case m.K == gen.YSeq && len(m.Elem) > 0 && st2 == "\x00#0":
					m = m.Elem[0]
				default:
					ok = false
				}
				if !ok {
					break
				}
			}
			if ok && len(path[i+1:]) > 0 {
				return true
			}
		}
		n = next
	}
	return false
}

// nodeAt follows a path of the harness's step encoding.
func nodeAt(root *gen.YN, path []string) *gen.YN {
	n := root
	for _, st := range path {
		var next *gen.YN
		switch n.K {
		case gen.YMap:
			for j, k := range n.Keys {
				if k.S == st {
					next = n.Vals[j]
				}
			}
		case gen.YSeq:
			var idx int
			if _, err := fmt.Sscanf(st, "\x00#%d", &idx); err == nil && idx < len(n.Elem) {
				next = n.Elem[idx]
			}
		}
		if next == nil {
			return nil
		}
		n = next
	}
	return n
}

// onLastBranch: the path leads to (or into) the last leaf of the document.
func onLastBranch(root *gen.YN, path []string) bool {
	n := root
	for _, st := range path {
		switch n.K {
		case gen.YMap:
			if len(n.Keys) == 0 || n.Keys[len(n.Keys)-1].S != st {
				return false
			}
			n = n.Vals[len(n.Vals)-1]
		case gen.YSeq:
			if len(n.Elem) == 0 || st != fmt.Sprintf("\x00#%d", len(n.Elem)-1) {
				return false
			}
			n = n.Elem[len(n.Elem)-1]
		default:
			return false
		}
	}
	return true
}

// prefix is the document's leading comment lines and separator.
func prefix(text string) string {
	var b strings.Builder
	for _, l := range strings.SplitAfter(text, "\n") {
		t := strings.TrimSpace(l)
		if strings.HasPrefix(t, "#") || t == "---" || t == "" {
			b.WriteString(l)
			continue
		}
		break
	}
	return b.String()
}

func check(c Case) hx.Verdict {
	gen.Relink([]*gen.YDoc{c.Doc})
	unwrap := false
	base := hx.Run(".", c.Text, hx.Opts{Unwrap: &unwrap})
	upd := hx.Run(c.Update, c.Text, hx.Opts{Unwrap: &unwrap})
	for _, o := range []hx.Outcome{base, upd} {
		if o.Crashed() {
			return hx.Bad("panic-site:"+o.PanicSite, "panic %s: u=%s\n%s", o.Panic, c.Update, c.Text)
		}
		if o.Timeout {
			return hx.Unspec("slow")
		}
	}
	if base.Err != "" {
		return hx.Disc("base_fails")
	}
	if upd.Err != "" {
		return hx.Unspec("update_errors")
	}
	switch c.Kind {
	case "union_updates":
		parts := strings.SplitN(c.Update, ", ", 2)
		seqd := hx.Run(parts[0]+" | "+parts[1], c.Text, hx.Opts{Unwrap: &unwrap})
		if seqd.Err != "" || seqd.Crashed() {
			return hx.Unspec("update_errors")
		}
		if upd.Out != seqd.Out {
			return hx.Bad("", "two in-place updates joined by `,` print something else than the same two joined by `|`:\nupdate: %s\n--- u1 | u2\n%s\n--- u1, u2\n%s", c.Update, seqd.Out, upd.Out)
		}
		return hx.OK(true, c.Text+"\x00"+c.Update, "kind:"+c.Kind)
	case "delete_nothing":
		if upd.Out != base.Out {
			return hx.Bad("", "an update that selects nothing changed the output:\nupdate: %s\n--- yq .\n%s\n--- yq u\n%s", c.Update, base.Out, upd.Out)
		}
		return hx.OK(true, c.Text+"\x00"+c.Update, "kind:"+c.Kind)
	case "read_missing":
		want := hx.Run(`.["zz_new"] = null`, c.Text, hx.Opts{Unwrap: &unwrap})
		if want.Err != "" || want.Crashed() {
			return hx.Unspec("update_errors")
		}
		if upd.Out != want.Out {
			return hx.Bad("", "reading an index past the end on the right-hand side changed more than the assigned key:\nupdate: %s\n--- expected (.zz_new = null)\n%s\n--- yq u\n%s", c.Update, want.Out, upd.Out)
		}
		return hx.OK(true, c.Text+"\x00"+c.Update, "kind:"+c.Kind)
	}
	bt, _, err1 := tableOf(base.Out)
	if err1 != nil {
		return hx.Disc("base_unreadable")
	}
	// footprint
	tp := ""
	for _, st := range c.Path {
		tp += "/" + st
	}
	parent := tp
	if i := strings.LastIndex(tp, "/"); i >= 0 {
		parent = tp[:i]
	}
	inside := func(p string) bool { return p == tp || strings.HasPrefix(p, tp+"/") }
	excl := map[string]bool{}
	delIdx, delParentSeq := -1, false
	switch c.Kind {
	case "delete":
		excl[parent] = true
		if len(c.Path) > 0 && strings.HasPrefix(c.Path[len(c.Path)-1], "\x00#") {
			fmt.Sscanf(c.Path[len(c.Path)-1], "\x00#%d", &delIdx)
			delParentSeq = true
		}
	case "append", "create_key":
		excl[tp] = true
	}
	if len(c.Path) == 0 {
		excl[""] = true
	}
	// an alias outside the footprint that refers to an anchor inside it legitimately changes: skip
	insideAnchors := map[string]bool{}
	for p, r := range bt {
		if inside(p) && r.Anchor != "" {
			insideAnchors[r.Anchor] = true
		}
	}
	for p, r := range bt {
		if !inside(p) && r.Kind == "alias" && insideAnchors[r.Value] {
			// what can still be said: an update that keeps what its target holds (a relative update of a scalar, an
			// append, a key creation) keeps the anchors in there, so the alias still has something to refer to
			if c.Kind == "relative" || c.Kind == "append" || c.Kind == "create_key" {
				if _, _, errLoad := tableOf(upd.Out); errLoad != nil {
					return hx.Bad("", "the update leaves the document unreadable (%v) - an alias outside the target lost its anchor: u=%s\n%s\n=>\n%s", errLoad, c.Update, c.Text, upd.Out)
				}
			}
			return hx.Unspec("alias_into_footprint")
		}
	}
	ut, _, err2 := tableOf(upd.Out)
	if err2 != nil {
		return hx.Bad("", "the updated document is unreadable (%v): u=%s\n%s\n=>\n%s", err2, c.Update, c.Text, upd.Out)
	}
	// comments: every comment the ground truth places outside the footprint must still be there, in order
	var keep []string
	if c.Doc.LeadComment != "" {
		keep = append(keep, c.Doc.LeadComment)
	}
	var walkC func(n *gen.YN, p string)
	walkC = func(n *gen.YN, p string) {
		out := !(inside(p) && len(c.Path) > 0) || ((c.Kind == "append" || c.Kind == "create_key") && p == tp)
		if c.Kind == "multi" && p == tp {
			out = true
		}
		counts := out && len(c.Path) > 0 || len(c.Path) == 0 && p != ""
		// the line comment of a collection written on one line comes after its content
		lineLast := n.K == gen.YMap || n.K == gen.YSeq
		if counts {
			if n.Head != "" {
				keep = append(keep, n.Head)
			}
			if n.Line != "" && !lineLast {
				keep = append(keep, n.Line)
			}
		}
		if n.K == gen.YMap {
			for i, k := range n.Keys {
				walkC(n.Vals[i], p+"/"+k.S)
			}
		}
		if n.K == gen.YSeq {
			for i, e := range n.Elem {
				walkC(e, fmt.Sprintf("%s/\x00#%d", p, i))
			}
		}
		if counts && n.Line != "" && lineLast {
			keep = append(keep, n.Line)
		}
	}
	walkC(c.Doc.Root, "")
	if c.Doc.Trail != "" {
		keep = append(keep, c.Doc.Trail)
	}
	if c.Kind == "multi" {
		// the children of the target are the footprint
		var k2 []string
		for _, x := range keep {
			k2 = append(k2, x)
		}
		keep = k2
	}
	// no line outside the target gains a line comment: a line `X # c` that `yq u` prints more often than `yq .`
	// while it prints the bare line `X` less often is a node that had no comment and now carries one (the comment
	// of the target wandering to a neighbour)
	// (not for a delete: the sibling that moves up into the place of a deleted first item takes over its line prefix)
	if c.Kind != "delete" {
		count := func(text string) (withC, bare map[string]int) {
			withC, bare = map[string]int{}, map[string]int{}
			for _, l := range strings.Split(text, "\n") {
				if i := strings.Index(l, " # "); i > 0 && strings.TrimSpace(l[:i]) != "" {
					withC[l]++
				} else {
					bare[l]++
				}
			}
			return
		}
		bw, bb := count(base.Out)
		uw, ub := count(upd.Out)
		for l, n := range uw {
			x := l[:strings.Index(l, " # ")]
			if n > bw[l] && ub[x] < bb[x] && !strings.Contains(x, "\"") && !strings.Contains(x, "'") {
				return hx.Bad("", "the line %q had no comment in `yq .` and is printed as %q by the update: u=%s\ninput:\n%s\n`yq .`:\n%s\n`yq u`:\n%s", x, l, c.Update, c.Text, base.Out, upd.Out)
			}
		}
	}
	got := commentsOf(upd.Out)
	gi := 0
	for _, want := range keep {
		found := false
		for gi < len(got) {
			if got[gi] == want {
				found = true
				gi++
				break
			}
			gi++
		}
		if !found {
			sig := ""
			if want == c.Doc.Trail && c.Kind == "delete" && onLastBranch(c.Doc.Root, c.Path) {
				// known finding: the comment after the last entry is attached (by the yaml reader) to the
				// last node of the document as its foot comment, and goes away with that node
				sig = "deviant:trailing-comment-owned-by-last-node"
			}
			if sig == "" && (c.Kind == "delete" || c.Kind == "replace_scalar" || c.Kind == "replace_tree" || c.Kind == "multi") {
				// known finding, same root: the head comment of a sequence item that is a block map / block sequence is
				// attached to the first key / first leaf inside it, and goes away when that node is deleted or replaced
				path := c.Path
				if c.Kind == "multi" {
					if tn := nodeAt(c.Doc.Root, c.Path); tn != nil && tn.K == gen.YMap && len(tn.Keys) > 0 {
						path = append(append([]string{}, c.Path...), tn.Keys[0].S)
					} else {
						path = append(append([]string{}, c.Path...), "\x00#0")
					}
				}
				if ownedByFirstKey(c.Doc.Root, path, want) {
					sig = "deviant:trailing-comment-owned-by-last-node"
				}
			}
			return hx.Bad(sig, "comment %q of a node outside the target is gone (or out of order; expected order %q, found %q): u=%s\ninput:\n%s\n`yq .`:\n%s\n`yq u`:\n%s", want, keep, got, c.Update, c.Text, base.Out, upd.Out)
		}
	}
	// map a path of the base table to where it should be in the updated table
	mapPath := func(p string) string {
		if !delParentSeq || !strings.HasPrefix(p, parent+"/\x00#") {
			return p
		}
		rest := p[len(parent)+3:]
		seg := rest
		tail := ""
		if i := strings.Index(rest, "/"); i >= 0 {
			seg, tail = rest[:i], rest[i:]
		}
		var idx int
		fmt.Sscanf(seg, "%d", &idx)
		if idx > delIdx {
			return fmt.Sprintf("%s/\x00#%d%s", parent, idx-1, tail)
		}
		return p
	}
	decorated := 0
	for p, r := range bt {
		if c.Kind == "multi" && strings.HasPrefix(p, tp+"/") {
			continue
		}
		if c.Kind != "multi" && c.Kind != "append" && c.Kind != "create_key" && inside(p) {
			continue
		}
		if (c.Kind == "append" || c.Kind == "create_key") && p == tp {
			// the container that receives the new entry: an empty one is re-styled by design ("nice yaml formatting");
			// one that already holds entries keeps its style, anchor and tag (it only gains an entry)
			if tn := nodeAt(c.Doc.Root, c.Path); tn != nil && tn.Len() > 0 && !strings.Contains(c.Update, "|=") {
				if ur, ok := ut[p]; ok && (ur.Style != r.Style || ur.Anchor != r.Anchor || ur.Tag != r.Tag || ur.Kind != r.Kind) {
					return hx.Bad("", "the container that receives the new entry changed its presentation: %+v -> %+v: u=%s\ninput:\n%s\n`yq .`:\n%s\n`yq u`:\n%s", r, ur, c.Update, c.Text, base.Out, upd.Out)
				}
				// written on one line it stays on one line, and its line comment stays a line comment
				if tn.Flow && tn.Line != "" {
					oneLineEntries++
					still := false
					for _, l := range strings.Split(upd.Out, "\n") {
						if i := strings.Index(l, " # "+tn.Line); i > 0 && strings.TrimSpace(l[:i]) != "" {
							still = true
						}
					}
					if !still {
						return hx.Bad("", "the line comment %q of the one-line collection that receives the new entry is no longer a line comment: u=%s\ninput:\n%s\n`yq .`:\n%s\n`yq u`:\n%s", tn.Line, c.Update, c.Text, base.Out, upd.Out)
					}
				}
			}
			continue
		}
		if excl[p] {
			continue
		}
		if r.Anchor != "" || strings.Trim(r.Style, "/key:") != "" {
			decorated++
		}
		q := mapPath(p)
		ur, ok := ut[q]
		if !ok {
			return hx.Bad("", "node %q outside the target disappeared: u=%s\ninput:\n%s\n`yq .`:\n%s\n`yq u`:\n%s", p, c.Update, c.Text, base.Out, upd.Out)
		}
		want := r
		if delParentSeq && strings.HasPrefix(p, parent+"/\x00#") && strings.Count(p[len(parent):], "/") == 1 && r.Idx > delIdx {
			want.Idx--
		}
		if c.Kind == "delete" && !delParentSeq && strings.HasPrefix(p, parent+"/") && strings.Count(p[len(parent):], "/") == 1 {
			// siblings after a deleted map entry move up by one
			if tr, ok := bt[tp]; ok && r.Idx > tr.Idx {
				want.Idx--
			}
		}
		if ur != want {
			return hx.Bad("", "node %q outside the target changed: %+v -> %+v: u=%s\ninput:\n%s\n`yq .`:\n%s\n`yq u`:\n%s", p, want, ur, c.Update, c.Text, base.Out, upd.Out)
		}
	}
	// nothing new outside the footprint
	for q := range ut {
		if inside(q) || (c.Kind == "delete" && false) {
			continue
		}
		found := false
		for p := range bt {
			if mapPath(p) == q && !(c.Kind == "delete" && inside(p)) {
				found = true
				break
			}
		}
		if !found && !((c.Kind == "append" || c.Kind == "create_key" || c.Kind == "multi") && strings.HasPrefix(q, tp+"/")) {
			return hx.Bad("", "node %q appeared outside the target: u=%s\ninput:\n%s\n`yq .`:\n%s\n`yq u`:\n%s", q, c.Update, c.Text, base.Out, upd.Out)
		}
	}
	if strings.HasPrefix(base.Out, "---") != strings.HasPrefix(upd.Out, "---") && len(c.Path) > 0 {
		return hx.Bad("", "document separator changed: u=%s\n`yq .`:\n%s\n`yq u`:\n%s", c.Update, base.Out, upd.Out)
	}
	// the same update on the same document as the second document of a stream prints the same for it (what is done
	// to a document does not depend on the documents before it)
	if c.Kind == "delete" && c.Doc.Trail == "" && c.Doc.LeadComment == "" && !c.Doc.Sep && !strings.HasPrefix(c.Text, "#") && !strings.HasPrefix(c.Text, "---") && !strings.HasPrefix(c.Text, "%") {
		two := hx.Run(c.Update, "zz_first: 1\n---\n"+c.Text, hx.Opts{Unwrap: &unwrap})
		if two.Crashed() {
			return hx.Bad("panic-site:"+two.PanicSite, "panic %s: u=%s as second document", two.Panic, c.Update)
		}
		if two.Err == "" {
			if i := strings.Index(two.Out, "\n---\n"); i >= 0 {
				if second := two.Out[i+5:]; strings.ReplaceAll(second, "\n\n", "\n") != strings.ReplaceAll(upd.Out, "\n\n", "\n") {
					return hx.Bad("", "the update prints something else for the same document when it is the second of a stream: u=%s\nalone:\n%s\nas second document:\n%s", c.Update, upd.Out, second)
				}
			}
		}
	}
	labels := []string{"kind:" + c.Kind}
	if oneLineEntries > 0 {
		oneLineEntries = 0
		labels = append(labels, "entry_into_one_line_collection_with_line_comment")
	}
	return hx.OK(decorated >= 3 && base.Out != upd.Out, c.Text+"\x00"+c.Update, labels...)
}

func TestProp(t *testing.T) {
	hx.RunProperty(t, hx.NewSub("update", 6000, 40000, genCase, check))
}
