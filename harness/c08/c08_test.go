package c08

import (
	"bufio"
	"bytes"
	"strconv"
	"strings"
	"testing"

	"github.com/mikefarah/yq/v4/pkg/yqlib"
	"pgregory.net/rapid"
	"verif/gen"
	"verif/hx"
	"verif/model"
	"verif/ref"
)

const rule = "case = (document: JSON-model or loose YAML with comments/anchors, assignment-free expression e from the typed core generator or the full read-only vocabulary, operand position W). " +
	"oracle (metamorphic): the document re-encoded (YAML, full fidelity) after evaluating W[e] in-process equals its encoding before; and `e as $x | .` / `select(e)` print only copies of what `.` prints. " +
	"non-trivial = e parses, evaluates without error inside W and contains a traversal and another operator; distinct by (W, e, doc) Sub split_exp: the --split-exp name expression `[e] | <dir>/f + ($index | tostring)` with an assignment-free e: the files written, in order, hold exactly what `.` prints."

func TestMain(m *testing.M) {
	hx.AllowComplexKeys = true
	hx.Main(m, "C08", rule,
		"the read-only vocabulary is derived from the documentation: assignment/update forms, del/delpaths/setpath/with/map_values/sort_keys/explode, attribute assign forms, ref variables, eval, load*, env*, now, shuffle, split_doc are excluded",
		"when e (inside W) errors, the document must still be unchanged")
}

// wrappers: the operand positions the statement lists. %s is e.
var wrappers = []struct {
	name    string
	tmpl    string
	seqOnly bool
}{
	{"as", "(%s) as $x | .", false},
	{"select", "select(%s)", false},
	{"rdesc_select", ".. | select(%s)", false},
	{"add_lhs", "(%s) + 1", false},
	{"add_rhs", "[1] + (%s)", false},
	{"sub_rhs", "[1] - (%s)", false},
	{"mul_rhs", "1 * (%s)", false},
	{"div_lhs", "(%s) / 2", false},
	{"eq_lhs", "(%s) == 1", false},
	{"eq_rhs", "1 == (%s)", false},
	{"neq_lhs", "(%s) != 1", false},
	{"lt_lhs", "(%s) < 1", false},
	{"gt_rhs", "1 > (%s)", false},
	{"and_lhs", "(%s) and true", false},
	{"or_rhs", "false or (%s)", false},
	{"alt_lhs", "(%s) // 1", false},
	{"alt_rhs", "null // (%s)", false},
	{"has", "has(%s)", false},
	{"contains", "contains(%s)", false},
	{"pick", "pick([%s])", false},
	{"any_c", "any_c(%s)", true},
	{"all_c", "all_c(%s)", true},
	{"filter", "filter(%s)", true},
	{"sort_by", "sort_by(%s)", true},
	{"group_by", "group_by(%s)", true},
	{"unique_by", "unique_by(%s)", true},
	{"with_entries_select", "with_entries(select(%s))", false},
	{"mod_lhs", "(%s) % 2", false},
	{"sub_lhs", "(%s) - 1", false},
}

type Case struct {
	Doc     string `json:"doc"`
	In      string `json:"in"`
	E       string `json:"e"`
	Wrapper string `json:"wrapper"`
	Expr    string `json:"expr"`
	Gen     string `json:"gen"`
}

func genCase(t *rapid.T) Case {
	var c Case
	var docIsSeq bool
	var e string
	if dk := rapid.IntRange(0, 11).Draw(t, "dockind"); dk >= 10 {
		// anchors, aliases and merge keys: a copy of a node still points at the anchored nodes of the document
		d := gen.MergeDoc(t)
		// two more maps over the same keys: l holds aliases (and perhaps a merge key), r plain values and small maps,
		// so that a merge / sum / comparison of the two meets an alias on the left where the right has something to add
		var anchored, anchoredMaps []*gen.YN
		d.Root.Walk(func(n *gen.YN) {
			if n.Anchor != "" {
				anchored = append(anchored, n)
				if n.K == gen.YMap {
					anchoredMaps = append(anchoredMaps, n)
				}
			}
		})
		l, r := &gen.YN{K: gen.YMap, Flow: rapid.Bool().Draw(t, "lflow")}, &gen.YN{K: gen.YMap, Flow: true}
		for _, k := range []string{"a", "b", "c"} {
			if rapid.IntRange(0, 3).Draw(t, "lhas") != 0 {
				var v *gen.YN
				if len(anchored) > 0 && rapid.IntRange(0, 2).Draw(t, "lalias") != 0 {
					tg := rapid.SampledFrom(anchored).Draw(t, "ltg")
					v = &gen.YN{K: gen.YAlias, Target: tg, TName: tg.Anchor}
				} else {
					v = &gen.YN{K: gen.YScalar, T: "int", S: "7"}
				}
				l.Keys = append(l.Keys, &gen.YN{K: gen.YScalar, T: "str", S: k})
				l.Vals = append(l.Vals, v)
			}
			if rapid.IntRange(0, 3).Draw(t, "rhas") != 0 {
				var v *gen.YN
				switch rapid.IntRange(0, 2).Draw(t, "rk") {
				case 0:
					v = &gen.YN{K: gen.YScalar, T: "int", S: "9"}
				case 1:
					v = &gen.YN{K: gen.YSeq, Flow: true, Elem: []*gen.YN{{K: gen.YScalar, T: "int", S: "5"}}}
				default:
					v = &gen.YN{K: gen.YMap, Flow: true, Keys: []*gen.YN{{K: gen.YScalar, T: "str", S: rapid.SampledFrom([]string{"a", "b", "zz", "nn"}).Draw(t, "rkk")}}, Vals: []*gen.YN{{K: gen.YScalar, T: "int", S: "2"}}}
				}
				r.Keys = append(r.Keys, &gen.YN{K: gen.YScalar, T: "str", S: k})
				r.Vals = append(r.Vals, v)
			}
		}
		if len(anchoredMaps) > 0 && rapid.IntRange(0, 2).Draw(t, "lmerge") == 0 {
			tg := rapid.SampledFrom(anchoredMaps).Draw(t, "lmtg")
			l.Keys = append(l.Keys, &gen.YN{K: gen.YScalar, T: "str", S: "<<", Merge: true})
			l.Vals = append(l.Vals, &gen.YN{K: gen.YAlias, Target: tg, TName: tg.Anchor})
		}
		if l.Len() == 0 {
			l.Flow = true
		}
		d.Root.Keys = append(d.Root.Keys, &gen.YN{K: gen.YScalar, T: "str", S: "l"}, &gen.YN{K: gen.YScalar, T: "str", S: "r"})
		d.Root.Vals = append(d.Root.Vals, l, r)
		c.Doc, c.In = gen.Text([]*gen.YDoc{d}), "yaml"
		var paths []string
		for i, k := range d.Root.Keys {
			paths = append(paths, "."+k.S)
			if v := d.Root.Vals[i]; v.K == gen.YMap {
				for _, kk := range v.Keys {
					if !kk.Merge {
						paths = append(paths, "."+k.S+"."+kk.S)
					}
				}
			}
		}
		p1 := rapid.SampledFrom(paths).Draw(t, "p1")
		p2 := rapid.SampledFrom(paths).Draw(t, "p2")
		if rapid.Bool().Draw(t, "lr") {
			p1, p2 = ".l", ".r"
			if rapid.IntRange(0, 3).Draw(t, "swaplr") == 0 {
				p1, p2 = ".r", ".l"
			}
		}
		if rapid.Bool().Draw(t, "binary") {
			e = "(" + p1 + " " + rapid.SampledFrom([]string{"*", "*n", "*d", "*+", "*?", "*nd", "*?+", "+", "//", "==", "!=", "<", "-", "*c"}).Draw(t, "aop") + " " + p2 + ")"
		} else {
			e = "(" + p1 + " | " + rapid.SampledFrom([]string{"@json", "to_json", "to_yaml", "@yaml", "to_props", "to_xml", "keys", "to_entries", "with_entries(.)", "[..]", "pick([\"a\"])", "omit([\"a\"])", "unique", "unique_by(.)", "group_by(.a)", "sort_by(.a)", "flatten", "reverse", "any", "contains({\"a\": 1})", "has(\"a\")", "length", "map(.)", "sort", "[.[]]", "{\"k\": .}", ".[] as $v | $v", "tojson"[:0] + "to_json(0)", "@base64", "select(.a)", "to_entries | from_entries", ".a // .b", "[.a, .b] | flatten",
				// reads of keys that are not there, through the values (aliases among them)
				"map(.zz)", "map(.nn)", "map(.a.zz)", "map(select(.zz))", "map_values(.)", "[.[] | .zz]", "to_entries | map(.value.zz)", "any_c(.zz)", "all_c(.nn == 2)", "map(has(\"zz\"))", "sort_by(.zz)", "group_by(.nn)", "unique_by(.zz)"}).Draw(t, "afn") + ")"
		}
		c.Gen = "alias_doc"
	} else if dk == 9 {
		// entry lists, complete and incomplete (key without value, name/k/v spellings), for the *_entries family
		var ents []string
		for i := rapid.IntRange(1, 4).Draw(t, "nent"); i > 0; i-- {
			k := rapid.SampledFrom([]string{"a", "b", "c", "0", "true"}).Draw(t, "ek")
			ents = append(ents, rapid.SampledFrom([]string{
				`{"key": "%s", "value": 1}`, `{"key": "%s"}`, `{"name": "%s", "value": [1]}`, `{"k": "%s", "v": 2}`, `{"key": "%s", "value": null}`, `{"value": 3}`, `{"key": "%s", "value": {"n": 1}, "extra": true}`, `{"Key": "%s", "Value": 4}`, `"%s"`, `{}`,
			}).Draw(t, "eshape"))
			if strings.Contains(ents[len(ents)-1], "%s") {
				ents[len(ents)-1] = strings.Replace(ents[len(ents)-1], "%s", k, 1)
			}
		}
		c.Doc, c.In = `{"e": [`+strings.Join(ents, ", ")+`], "m": {"a": 1, "b": {"c": 2}}}`, "json"
		e = rapid.SampledFrom([]string{".e | from_entries", ".e | from_entries | keys", ".m | to_entries", ".m | with_entries(.)", ".e | map(select(has(\"value\"))) | from_entries", ".e | with_entries(.)", ".e | to_entries", ".m | to_entries | from_entries", ".e[] | from_entries", "[.e[] | .value]", ".e | from_entries | .a", ".m | with_entries(.value |= .)", ".e | map(.key)"}).Draw(t, "entexpr")
		c.Gen = "entries_doc"
	} else if dk < 6 {
		doc := gen.JSONDoc(t, gen.DocOpts{Depth: 3, Width: 4})
		c.Doc, c.In = doc.JSON(), "json"
		docIsSeq = doc.K == 5 // model.Seq
		if rapid.Bool().Draw(t, "coregen") {
			e = ref.Print(gen.CoreExpr(t, doc, 2))
			c.Gen = "core"
		}
	} else {
		c.Doc, c.In = gen.LooseText(t, "yaml"), "yaml"
		if i := strings.Index(c.Doc[1:], "---"); i >= 0 {
			c.Doc = c.Doc[:i+1] // one document
		}
		docIsSeq = strings.HasPrefix(strings.TrimLeft(strings.TrimPrefix(c.Doc, "---"), "\n"), "- ")
	}
	if e == "" {
		e = gen.SoupPure(t, rapid.IntRange(0, 3).Draw(t, "depth"))
		e = gen.BoundIndices(e)
		c.Gen = "soup"
	}
	c.E = e
	var ws []int
	for i, w := range wrappers {
		if !w.seqOnly || docIsSeq {
			ws = append(ws, i)
		}
	}
	w := wrappers[rapid.SampledFrom(ws).Draw(t, "w")]
	c.Wrapper = w.name
	c.Expr = strings.Replace(w.tmpl, "%s", e, 1)
	return c
}

func encodeNode(n *yqlib.CandidateNode) (string, error) {
	hx.ResetPrefs()
	yqlib.ConfiguredYamlPreferences.UnwrapScalar = false
	enc := yqlib.NewYamlEncoder(yqlib.ConfiguredYamlPreferences)
	var b bytes.Buffer
	if err := enc.Encode(&b, n); err != nil {
		return "", err
	}
	return n.LeadingContent + "\x00" + b.String(), nil
}

func check(c Case) hx.Verdict {
	if c.In == "yaml" && strings.Contains(c.Doc, "*") && hx.YAMLCyclic(c.Doc) {
		return hx.Disc("cyclic_alias")
	}
	// the wrapper puts E where a condition, key or operand goes; that only means something
	// when E is an expression by itself. A fragment the parser rejects alone can still balance
	// inside the wrapper (`.. | select(.a.[collect | 0] | 0.a)`: the bare word takes `..` as its
	// operand and the traversal lands outside the select), and then nothing is in that position
	if c.E != "" {
		if _, po := hx.Parse(c.E); po.Err != "" {
			return hx.Disc("operand_does_not_parse_alone")
		}
	}
	// (iii) in-process: the decoded document must re-encode identically after the evaluation
	var before, after string
	var evalErr string
	o := hx.Guard(hx.DefaultLimit, func() hx.Outcome {
		hx.ResetPrefs()
		var dec yqlib.Decoder
		if c.In == "json" {
			dec = yqlib.NewJSONDecoder()
		} else {
			dec = yqlib.NewYamlDecoder(yqlib.ConfiguredYamlPreferences)
		}
		docs, err := yqlib.ReadDocuments(bufio.NewReader(strings.NewReader(c.Doc)), dec)
		if err != nil || docs.Len() != 1 {
			return hx.Outcome{Err: "undecodable"}
		}
		node := docs.Front().Value.(*yqlib.CandidateNode)
		node.EvaluateTogether = false
		if before, err = encodeNode(node); err != nil {
			return hx.Outcome{Err: "unencodable"}
		}
		if _, err := yqlib.NewAllAtOnceEvaluator().EvaluateNodes(c.Expr, node); err != nil {
			evalErr = err.Error()
		}
		if after, err = encodeNode(node); err != nil {
			after = "ENCODE-ERROR " + err.Error()
		}
		return hx.Outcome{}
	})
	if o.Crashed() {
		return hx.Bad("panic-site:"+o.PanicSite, "panic %s: expr=%s doc=%q", o.Panic, c.Expr, c.Doc)
	}
	if o.Timeout {
		return hx.Unspec("slow")
	}
	if o.Err != "" {
		return hx.Disc(o.Err)
	}
	labels := []string{"w:" + c.Wrapper, "gen:" + c.Gen, "in:" + c.In}
	if strings.Contains(evalErr, "lexer") || strings.Contains(evalErr, "bad expression") || strings.Contains(evalErr, "expects ") {
		labels = append(labels, "parse_error")
	}
	if before != after {
		sig := ""
		if writableOperand[c.Wrapper] && onlyNullAdditions(before, after) {
			// the known finding: these operators evaluate their operands in the writable
			// context, so a read of something absent creates it (pinned by golden tests)
			sig = "deviant:writable-operand"
		}
		return hx.Bad(sig, "evaluating an assignment-free expression changed the document: W=%s expr=%s\nbefore: %q\nafter:  %q\n(eval error: %q)", c.Wrapper, c.Expr, before, after, evalErr).WithLabels(labels...)
	}
	nontrivial := evalErr == "" && strings.Contains(c.E, ".") && len(c.E) > 4
	// (i)/(ii) through the command path: outputs are copies of what `.` prints
	if evalErr == "" && (c.Wrapper == "as" || c.Wrapper == "select") {
		base := hx.Run(".", c.Doc, hx.Opts{In: c.In, Out: "yaml"})
		got := hx.Run(c.Expr, c.Doc, hx.Opts{In: c.In, Out: "yaml"})
		if base.OK() && got.OK() {
			b := base.Out
			rest := got.Out
			n := 0
			for rest != "" {
				if !strings.HasPrefix(rest, b) {
					return hx.Bad("", "`%s` printed something other than copies of the document:\n%q\nwhereas `.` prints\n%q", c.Expr, got.Out, b).WithLabels(labels...)
				}
				rest = rest[len(b):]
				n++
			}
			if c.Wrapper == "select" && n > 1 {
				return hx.Bad("", "select passed the node %d times: %s", n, c.Expr)
			}
			labels = append(labels, "cmd_path")
		}
	}
	if evalErr != "" {
		labels = append(labels, "eval_error")
	}
	return hx.OK(nontrivial, c.Expr+"\x00"+c.Doc, labels...)
}

var writableOperand = map[string]bool{"mul_rhs": true, "eq_lhs": true, "eq_rhs": true, "neq_lhs": true, "lt_lhs": true, "gt_rhs": true, "alt_lhs": true, "alt_rhs": true}

// onlyNullAdditions: `after` is `before` plus entries that hold nothing but null
// (created keys, padded indices, null re-typed as an empty/vivified container).
func onlyNullAdditions(before, after string) bool {
	if !strings.Contains(before, "\x00") || !strings.Contains(after, "\x00") {
		return false // the document could not be re-encoded afterwards: not the finding's shape
	}
	b, err1 := hx.YAMLToModel(strings.SplitN(before, "\x00", 2)[1])
	a, err2 := hx.YAMLToModel(strings.SplitN(after, "\x00", 2)[1])
	if err1 == nil && len(b) == 0 {
		b = []*model.Value{model.NewNull()}
	}
	if err2 == nil && len(a) == 0 {
		a = []*model.Value{model.NewNull()}
	}
	if err1 != nil || err2 != nil {
		return textualNullAdditions(before, after)
	}
	if len(a) != len(b) || strings.SplitN(before, "\x00", 2)[0] != strings.SplitN(after, "\x00", 2)[0] {
		return false
	}
	for i := range a {
		if !superset(b[i], a[i]) {
			return false
		}
	}
	return true
}

// textualNullAdditions is the fallback for documents the harness's YAML reader
// does not model (complex keys): every line of before occurs in after, in
// order, and every added line carries no value other than null / [] / {}.
func textualNullAdditions(before, after string) bool {
	bp, ap := strings.SplitN(before, "\x00", 2), strings.SplitN(after, "\x00", 2)
	if len(bp) != 2 || len(ap) != 2 || bp[0] != ap[0] {
		return false
	}
	bl := strings.Split(bp[1], "\n")
	al := strings.Split(ap[1], "\n")
	switch strings.TrimSpace(bp[1]) {
	case "{}", "[]", "null", "":
		bl = nil // an empty document: everything in after is an addition
	}
	i := 0
	for _, l := range al {
		if i < len(bl) && l == bl[i] {
			i++
			continue
		}
		// a `- null` that became `- d: null`: allow the line of before to be replaced when it held only null
		if i < len(bl) && strings.HasSuffix(strings.TrimSpace(bl[i]), "null") && strings.HasPrefix(strings.TrimSpace(l), strings.TrimSuffix(strings.TrimSpace(bl[i]), "null")) {
			i++
		}
		v := strings.TrimSpace(l)
		if k := strings.Index(v, " #"); k >= 0 {
			v = strings.TrimSpace(v[:k]) // a created key copied from a commented node carries its comment
		}
		for again := true; again; {
			again = false
			for _, pre := range []string{"- ", "? ", ": "} {
				if strings.HasPrefix(v, pre) {
					v, again = strings.TrimSpace(v[len(pre):]), true
				}
			}
		}
		if k := strings.LastIndex(v, ": "); k >= 0 {
			v = v[k+2:]
		} else if strings.HasSuffix(v, ":") {
			v = ""
		}
		switch v {
		case "", "null", "[]", "{}", ":", "-":
		default:
			if _, err := strconv.Atoi(v); err != nil { // an index inside a created complex key
				return false
			}
		}
	}
	return i == len(bl)
}

func allNull(v *model.Value) bool {
	ok := true
	v.Walk(func(x *model.Value) {
		if x.IsScalar() && x.K != model.Null {
			ok = false
		}
	})
	return ok
}

func superset(b, a *model.Value) bool {
	if b.K == model.Null {
		return allNull(a)
	}
	if b.K != a.K {
		return false
	}
	switch b.K {
	case model.Seq:
		if len(a.Elem) < len(b.Elem) {
			return false
		}
		for i := range a.Elem {
			if i < len(b.Elem) {
				if !superset(b.Elem[i], a.Elem[i]) {
					return false
				}
			} else if !allNull(a.Elem[i]) {
				return false
			}
		}
		return true
	case model.Map:
		if len(a.Keys) < len(b.Keys) {
			return false
		}
		for i, k := range a.Keys {
			if i < len(b.Keys) {
				if b.Keys[i] != k || !superset(b.Vals[i], a.Vals[i]) {
					return false
				}
			} else if !allNull(a.Vals[i]) {
				return false
			}
		}
		return true
	}
	return model.Equal(a, b)
}

func TestProp(t *testing.T) {
	hx.RunProperty(t, hx.NewSub("readonly", 20000, 120000, genCase, check), hx.NewSub("split_exp", 1500, 10000, genSplit, checkSplit))
}
