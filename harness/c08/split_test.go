package c08

import (
	"fmt"
	"os"
	"path/filepath"
	"strings"

	"pgregory.net/rapid"
	"verif/gen"
	"verif/hx"
)

// Sub "split_exp": the expression that names the output file of each result (--split-exp) is an assignment-free
// expression evaluated on the result about to be written: what is written is what `.` prints.

type SplitCase struct {
	Docs []string `json:"docs"`
	E    string   `json:"e"`
}

func genSplit(t *rapid.T) SplitCase {
	var c SplitCase
	for i := rapid.IntRange(1, 3).Draw(t, "ndocs"); i > 0; i-- {
		c.Docs = append(c.Docs, gen.JSONDoc(t, gen.DocOpts{Depth: 2, Width: 3, SimpleStr: true, NoFloats: true}).JSON())
	}
	if rapid.Bool().Draw(t, "simple") {
		c.E = rapid.SampledFrom([]string{".name", ".a", ".a.b", ".[0]", ".name // \"d\"", ".a == 1", "has(\"a\")", ".a | length", "[.a, .zz]", "select(.a == 1)", ".missing.deep", ".[3]"}).Draw(t, "se")
	} else {
		c.E = gen.BoundIndices(gen.SoupPure(t, rapid.IntRange(1, 2).Draw(t, "depth")))
	}
	return c
}

func checkSplit(c SplitCase) hx.Verdict {
	dir := filepath.Join(hx.WorkDir(), "split")
	_ = os.RemoveAll(dir)
	_ = os.MkdirAll(dir, 0o755)
	input := strings.Join(c.Docs, "\n---\n") + "\n"
	plain := hx.Run(".", input, hx.Opts{})
	if !plain.OK() {
		return hx.Disc("identity_fails")
	}
	name := "[" + c.E + "] | " + gen.Quote(dir+"/f") + " + ($index | tostring)"
	o := hx.Run(".", input, hx.Opts{SplitExp: name})
	if o.Crashed() {
		return hx.Bad("panic-site:"+o.PanicSite, "panic %s: -s %q on %s", o.Panic, name, input)
	}
	if o.Timeout {
		return hx.Unspec("slow")
	}
	if o.Err != "" {
		return hx.Unspec("name_expression_fails")
	}
	var got strings.Builder
	for i := range c.Docs {
		b, err := os.ReadFile(filepath.Join(dir, fmt.Sprintf("f%d.yml", i)))
		if err != nil {
			return hx.Bad("", "no file for result %d (%v): -s %q on %s", i, err, name, input)
		}
		got.Write(b)
	}
	if got.String() != plain.Out {
		return hx.Bad("", "the files written with --split-exp do not hold what `.` prints: the name expression `%s` changed the results\nfiles: %q\nplain: %q", c.E, got.String(), plain.Out)
	}
	return hx.OK(true, c.E+input, "split_exp")
}
