package c09

import (
	"fmt"
	"sort"
	"strings"
	"testing"

	"github.com/mikefarah/yq/v4/pkg/yqlib"
	"pgregory.net/rapid"
	"verif/hx"
)

const rule = "an expression tree is generated over every binary operator, prefix functions with 1-2 arguments, [] {} () and postfix traversal, and printed by the harness's own printer, which knows its token boundaries: S0 with the fewest parentheses the frozen precedence table (copied from operation.go, kept here) allows, S1 with every operator application bracketed, layout variants (blank, blanks, tab, LF, CRLF, `# comment` + newline, nothing where the left token is self-delimiting) and variants with redundant parentheses. Oracle: every spelling parses to the same operator tree (chains of one associative operator and postfix chains flattened) and prints the same bytes (or fails alike) on three generated documents; for two different operators of one level the parse must equal one of the two bracketings; token lists with one bracket removed / swapped / added, or with one operand of a binary operator removed or a dangling operator added, must be rejected by the parser. " +
	"non-trivial = at least two binary operators of different levels adjacent, a layout variant differing from S0 at two or more boundaries, or a malformed text; distinct by text"

func TestMain(m *testing.M) {
	hx.Main(m, "C09", rule,
		"whitespace inside one token (`. a`, `= =`, inside string literals) is not layout",
		"no blank is removed between a path / variable and an arithmetic or comparison operator (path characters include + - * / % < > #), after `*` / `=` before a letter (operator flags), or between `-` and a digit (negative literal): there the blank is part of the token boundary",
		"for two different operators of equal level, and for repeated non-associative operators, the statement fixes no grouping")
}

// ---------------------------------------------------------------------------
// frozen precedence table (operation.go at the pinned commit)

var level = map[string]int{
	",": 10, ";": 10,
	":":  15,
	"or": 20, "and": 20,
	"|":       30,
	"ireduce": 35,
	"=":       40, "|=": 40, "+=": 40, "-=": 40, "==": 40, "!=": 40, "<": 40, "<=": 40, ">": 40, ">=": 40, "as": 40,
	"*": 42, "*=": 42, "/": 42, "%": 42, "+": 42, "-": 42, "//": 42,
}

// operators whose chains may be grouped either way without changing the meaning
var assoc = map[string]bool{",": true, "or": true, "and": true, "|": true}

const primary = 100

// ---------------------------------------------------------------------------
// expression trees

type N struct {
	K    string   `json:"k"` // atom, bin, call, collect, object, paren, postfix
	Op   string   `json:"op,omitempty"`
	Toks []string `json:"toks,omitempty"` // atom tokens / postfix suffix tokens (index expressions are in Kids[1])
	Kids []*N     `json:"kids,omitempty"`
}

func (n *N) lvl() int {
	if n.K == "bin" {
		return level[n.Op]
	}
	return primary
}

// tokens prints the tree; full = every operator application bracketed.
func (n *N) tokens(full bool) []string {
	switch n.K {
	case "atom":
		return n.Toks
	case "paren":
		return wrap(n.Kids[0].tokens(full))
	case "bin":
		l, r := n.Kids[0].tokens(full), n.Kids[1].tokens(full)
		if !full {
			if needParens(n, 0) {
				l = wrap(l)
			}
			if needParens(n, 1) {
				r = wrap(r)
			}
		}
		out := append(append(append([]string{}, l...), n.Op), r...)
		if full {
			return wrap(out)
		}
		return out
	case "call":
		out := []string{n.Op, "("}
		out = append(out, n.Kids[0].tokens(full)...)
		return append(out, ")")
	case "collect":
		out := []string{"["}
		if len(n.Kids) > 0 {
			out = append(out, n.Kids[0].tokens(full)...)
		}
		return append(out, "]")
	case "object":
		out := []string{"{"}
		if len(n.Kids) > 0 {
			out = append(out, n.Kids[0].tokens(full)...)
		}
		return append(out, "}")
	case "postfix":
		base := n.Kids[0]
		out := base.tokens(full)
		if base.K == "bin" && !full || baseNeedsParens(base) {
			out = wrap(out)
		}
		if n.Op == "path" {
			return append(append([]string{}, out...), n.Toks...)
		}
		// index: base [ expr ]
		out = append(append([]string{}, out...), "[")
		if len(n.Kids) > 1 {
			out = append(out, n.Kids[1].tokens(full)...)
		}
		return append(out, "]")
	}
	panic("kind " + n.K)
}

// a traversal can follow a path, a closing bracket or a function call; after a literal, `.` or an argument-less function it needs brackets
func baseNeedsParens(base *N) bool {
	if base.K != "atom" {
		return false
	}
	last := base.Toks[len(base.Toks)-1]
	return !(last == "]" || last == ")" || isPathTok(last) && last[0] == '.' || directPostfix[last])
}

// argument-less operators that accept a traversal written directly after them (`keys[0]`, `parent(2).name`)
var directPostfix = map[string]bool{"parent(1)": true, "parent(2)": true, "parent": true, "flatten(1)": true, "flatten": true, "keys": true, "reverse": true,
	"sort": true, "unique": true, "to_entries": true, "path": true, "$v": true, "$w": true, "$item": true, "$i": true}

func wrap(t []string) []string {
	return append(append([]string{"("}, t...), ")")
}

// needParens: S0 keeps a child unbracketed only where the table (not an associativity the statement does not fix) decides the grouping.
func needParens(parent *N, side int) bool {
	child := parent.Kids[side]
	if child.K != "bin" {
		return false
	}
	if parent.Op == "," && child.Op == "," {
		// `(.a = 1), (.b = 2)` yields the document once (union recognises two operands that both hand back the
		// context), which makes `,` regroupable only where no such operands meet: the harness writes chains of
		// `,` flat only in the grouping the evaluator itself uses (to the right)
		return side == 0
	}
	if parent.Op == "|" && child.Op == "|" && side == 0 && pipeChainBinds(parent) {
		// `x as $v | a | b` is `x as $v | (a | b)`: the body of a binding extends to the right as far as it can,
		// and evaluating it once per bound value is not the same as piping all values on (`{}`, literals and `,`
		// see one context of several nodes instead of several contexts of one). A pipe chain with a binding in
		// it is therefore written flat only in the right-nested grouping.
		return true
	}
	pl, cl := level[parent.Op], level[child.Op]
	if cl < pl {
		return true
	}
	if cl > pl {
		return false
	}
	return !(parent.Op == child.Op && assoc[parent.Op])
}

// pipeChainBinds: some operand of the chain of `|` that n heads is a variable binding.
func pipeChainBinds(n *N) bool {
	if n.K == "bin" && n.Op == "|" {
		return pipeChainBinds(n.Kids[0]) || pipeChainBinds(n.Kids[1])
	}
	return n.K == "bin" && n.Op == "as"
}

// ---------------------------------------------------------------------------
// generator

var pathAtoms = [][]string{{".a"}, {".b"}, {".c"}, {".arr"}, {".m"}, {".m", ".x"}, {".m", ".y"}, {".arr", "[", "0", "]"}, {".arr", "[", "1", "]"}, {".s"}, {".t"}, {"."}, {".arr", "[", "]"}, {".[", "\"a\"", "]"}, {".missing"}, {".\"a\""}}
var valueAtoms = [][]string{{"1"}, {"2"}, {"3"}, {"0"}, {"-1"}, {"\"x\""}, {"\"a\""}, {"true"}, {"false"}, {"null"}, {"2.5"}, {"0x10"}}
var nullary = [][]string{{"length"}, {"keys"}, {"not"}, {"min"}, {"max"}, {"reverse"}, {"sort"}, {"to_entries"}, {"unique"}, {"flatten"}, {"to_json"}, {"kind"}, {"key"}, {"path"}, {"parent"}, {"to_string"}, {".."}, {"line"}, {"any"}, {"all"}, {"trim"}, {"upcase"}, {"to_number"}, {"from_entries"}, {"explode", "(", ".", ")"}, {"parent(1)"}, {"parent(2)"}, {"flatten(1)"}, {"to_json(0)"}, {"to_yaml(2)"}}

var call1 = []string{"select", "map", "map_values", "has", "sort_by", "group_by", "unique_by", "with_entries", "any_c", "all_c", "del", "contains", "pick", "collect", "filter", "omit", "join", "test", "split", "match", "explode", "sort_keys", "eval", "delpaths"}
var call2 = []string{"with", "sub", "setpath"}

var binOps = []string{",", "or", "and", "|", "=", "|=", "+=", "-=", "==", "!=", "<", "<=", ">", ">=", "*", "*=", "/", "%", "+", "-", "//"}

type genCtx struct {
	t     *rapid.T
	inObj bool
}

func atom(t *rapid.T) *N {
	k := rapid.IntRange(0, 9).Draw(t, "ak")
	switch {
	case k <= 4:
		return &N{K: "atom", Toks: rapid.SampledFrom(pathAtoms).Draw(t, "path")}
	case k <= 7:
		return &N{K: "atom", Toks: rapid.SampledFrom(valueAtoms).Draw(t, "val")}
	default:
		return &N{K: "atom", Toks: rapid.SampledFrom(nullary).Draw(t, "fn")}
	}
}

func lhsPath(t *rapid.T) *N {
	return &N{K: "atom", Toks: rapid.SampledFrom([][]string{{".a"}, {".b"}, {".m", ".x"}, {".arr", "[", "0", "]"}, {".new"}, {".arr", "[", "]"}, {".m"}}).Draw(t, "lhs")}
}

func expr(t *rapid.T, depth int) *N {
	if depth <= 0 {
		return atom(t)
	}
	k := rapid.IntRange(0, 19).Draw(t, "ek")
	switch {
	case k <= 9:
		op := rapid.SampledFrom(binOps).Draw(t, "op")
		l := expr(t, depth-1)
		if (op == "=" || op == "|=" || op == "+=" || op == "-=" || op == "*=") && rapid.IntRange(0, 3).Draw(t, "lhsk") != 0 {
			l = lhsPath(t)
		}
		return &N{K: "bin", Op: op, Kids: []*N{l, expr(t, depth-1)}}
	case k == 10:
		return atom(t)
	case k == 11:
		name := rapid.SampledFrom(call1).Draw(t, "c1")
		return &N{K: "call", Op: name, Kids: []*N{expr(t, depth-1)}}
	case k == 12:
		name := rapid.SampledFrom(call2).Draw(t, "c2")
		return &N{K: "call", Op: name, Kids: []*N{{K: "bin", Op: ";", Kids: []*N{expr(t, depth-1), expr(t, depth-1)}}}}
	case k == 13:
		if rapid.IntRange(0, 5).Draw(t, "emptyc") == 0 {
			return &N{K: "collect"}
		}
		return &N{K: "collect", Kids: []*N{expr(t, depth-1)}}
	case k == 14:
		// { k: v, k: v }
		n := rapid.IntRange(0, 3).Draw(t, "nent")
		if n == 0 {
			return &N{K: "object"}
		}
		var body *N
		for i := 0; i < n; i++ {
			key := &N{K: "atom", Toks: rapid.SampledFrom([][]string{{"\"k\""}, {"\"a\""}, {".s"}, {"\"z\""}, {"(", ".t", ")"}}).Draw(t, "okey")}
			ent := &N{K: "bin", Op: ":", Kids: []*N{key, expr(t, depth-1)}}
			if body == nil {
				body = ent
			} else {
				body = &N{K: "bin", Op: ",", Kids: []*N{body, ent}}
			}
		}
		return &N{K: "object", Kids: []*N{body}}
	case k == 15:
		return &N{K: "paren", Kids: []*N{expr(t, depth-1)}}
	case k == 16:
		// postfix path after a bracketed thing / function / path
		base := postfixBase(t, depth)
		return &N{K: "postfix", Op: "path", Toks: rapid.SampledFrom([][]string{{".a"}, {".x"}, {".m", ".y"}, {".value"}, {".key"}, {".arr"}}).Draw(t, "pfx"), Kids: []*N{base}}
	case k == 17:
		base := postfixBase(t, depth)
		if rapid.IntRange(0, 4).Draw(t, "splat") == 0 {
			return &N{K: "postfix", Op: "index", Kids: []*N{base}}
		}
		return &N{K: "postfix", Op: "index", Kids: []*N{base, expr(t, depth-1)}}
	case k == 18:
		// e as $v | body
		v := rapid.SampledFrom([]string{"$v", "$w", "$item"}).Draw(t, "var")
		bind := &N{K: "bin", Op: "as", Kids: []*N{expr(t, depth-1), {K: "atom", Toks: []string{v}}}}
		body := &N{K: "bin", Op: rapid.SampledFrom([]string{"+", "==", ",", "*", "-"}).Draw(t, "bop"), Kids: []*N{{K: "atom", Toks: []string{v}}, expr(t, depth-1)}}
		return &N{K: "bin", Op: "|", Kids: []*N{bind, body}}
	default:
		// e as $v ireduce (init; body)
		bind := &N{K: "bin", Op: "as", Kids: []*N{{K: "atom", Toks: rapid.SampledFrom([][]string{{".arr", "[", "]"}, {".[", "]"}, {".m", "[", "]"}}).Draw(t, "rsrc")}, {K: "atom", Toks: []string{"$i"}}}}
		block := &N{K: "bin", Op: ";", Kids: []*N{expr(t, 0), {K: "bin", Op: rapid.SampledFrom([]string{"+", "*", ","}).Draw(t, "rop"), Kids: []*N{{K: "atom", Toks: []string{"."}}, {K: "atom", Toks: []string{"$i"}}}}}}
		return &N{K: "bin", Op: "ireduce", Kids: []*N{bind, block}}
	}
}

func postfixBase(t *rapid.T, depth int) *N {
	switch rapid.IntRange(0, 5).Draw(t, "pb") {
	case 0:
		return &N{K: "paren", Kids: []*N{expr(t, depth-1)}}
	case 1:
		return &N{K: "collect", Kids: []*N{expr(t, depth-1)}}
	case 2:
		return &N{K: "call", Op: rapid.SampledFrom([]string{"select", "map", "sort_by", "with_entries", "pick", "group_by", "has", "del"}).Draw(t, "pbc"), Kids: []*N{expr(t, depth-1)}}
	case 3:
		return &N{K: "atom", Toks: rapid.SampledFrom([][]string{{".m"}, {".arr"}, {".a"}, {".[", "\"m\"", "]"}, {"parent(1)"}, {"parent(2)"}, {"parent"}, {"flatten(1)"}, {"flatten"}, {"keys"}, {"reverse"}, {"sort"}, {"unique"}, {"to_entries"}, {"path"}}).Draw(t, "pbp")}
	case 4:
		return &N{K: "object", Kids: []*N{{K: "bin", Op: ":", Kids: []*N{{K: "atom", Toks: []string{"\"a\""}}, expr(t, depth-1)}}}}
	default:
		return expr(t, depth-1) // a binary operator here is bracketed by the printer
	}
}

// ---------------------------------------------------------------------------
// layout

func isWord(c byte) bool {
	return c == '_' || c == '$' || c == '@' || c >= '0' && c <= '9' || c >= 'a' && c <= 'z' || c >= 'A' && c <= 'Z'
}

func isPathTok(s string) bool {
	return len(s) > 1 && s[0] == '.' && s != ".." && s != "..." && s != ".[" || s[0] == '$'
}

// canGlue: the two tokens may be written without anything between them.
func canGlue(l, r string) bool {
	lc, rc := l[len(l)-1], r[0]
	if isWord(lc) && isWord(rc) {
		return false
	}
	if rc == '#' || rc == '?' {
		return false
	}
	if isPathTok(l) {
		return strings.IndexByte(";}{:[],|.()=!", rc) >= 0 && !(rc == '.' && len(r) > 1 && r[1] == '.')
	}
	switch l {
	case ".", "..", "...":
		return strings.IndexByte(",|)]};:", rc) >= 0
	case "*", "*=":
		return strings.IndexByte(".([{\"$", rc) >= 0
	case "-":
		return strings.IndexByte(".([{\"$", rc) >= 0
	case "/":
		return rc != '/'
	case "|":
		return rc != '='
	case "<", ">":
		return rc != '='
	}
	if lc == '=' && (rc == 'c' || rc == '=') {
		return false
	}
	if lc >= '0' && lc <= '9' && rc == '.' {
		return false
	}
	if strings.HasPrefix(l, "@") || l == "as" || l == "or" || l == "and" {
		return !isWord(rc)
	}
	return true
}

var seps = []string{" ", " ", "  ", "\t", "\n", "\r\n", " \n\t", " # note\n", "\t# | ) \" ' comment\n", "\n#c\n"}

func layout(t *rapid.T, toks []string, label string) (string, int) {
	var b strings.Builder
	changed := 0
	for i, tk := range toks {
		if i > 0 {
			sep := " "
			switch k := rapid.IntRange(0, 5).Draw(t, label+"k"); {
			case k <= 1:
				sep = " "
			case k == 2:
				if canGlue(toks[i-1], tk) {
					sep = ""
				}
			default:
				sep = rapid.SampledFrom(seps).Draw(t, label+"s")
			}
			if sep != " " {
				changed++
			}
			b.WriteString(sep)
		}
		b.WriteString(tk)
	}
	return b.String(), changed
}

func canonical(toks []string) string { return strings.Join(toks, " ") }

// parens wraps random nodes in redundant parentheses.
func addParens(t *rapid.T, n *N) *N {
	c := &N{K: n.K, Op: n.Op, Toks: n.Toks}
	for i, k := range n.Kids {
		kid := addParens(t, k)
		// `.x.a[i]` groups as `.x | (.a[i])` (the implicit pipe binds weaker than the index), so `.x.a` is not a
		// sub-expression of it: a base that ends in an implicit pipe is left as it is
		if n.K == "postfix" && n.Op == "index" && i == 0 && kid.K == "paren" && kid != k && !(k.K == "atom" && len(k.Toks) == 1 || k.K == "collect" || k.K == "call" || k.K == "object" || k.K == "paren") {
			kid = kid.Kids[0]
		}
		c.Kids = append(c.Kids, kid)
	}
	// the two halves of a function's `a; b` argument list and of an object entry list are not wrapped as a whole (they are, one by one)
	if n.K == "bin" && (n.Op == ";") {
		return c
	}
	// `x as $v` is not an expression of its own: the binding needs the pipe and the body that follow it, and
	// brackets around it alone do not close its scope (they vanish: `(x as $v) | a | b` is `x as $v | (a | b)`)
	if n.K == "bin" && n.Op == "as" {
		return c
	}
	if rapid.IntRange(0, 3).Draw(t, "wrap") == 0 {
		return &N{K: "paren", Kids: []*N{c}}
	}
	return c
}

// ---------------------------------------------------------------------------
// case

type Spelling struct {
	Label string `json:"label"`
	Text  string `json:"text"`
}

type Case struct {
	S0       string     `json:"s0"`
	Variants []Spelling `json:"variants"`
	Docs     []string   `json:"docs"`
	Pairs    []string   `json:"pairs"` // adjacent operator pairs of different level (labels)
	NT       bool       `json:"nt"`
}

var docPool = []string{
	"a: 1\nb: 2\nc: 3\ns: k\nt: z\narr: [3, 1, 2]\nm: {x: 5, y: 6}\n",
	"a: x\nb: y\nc: \"\"\ns: a\nt: k\narr: [b, a]\nm: {x: [1], y: {a: 1}}\n",
	"a: [1, 2]\nb: [2]\nc: null\ns: z\nt: a\narr: [{a: 1, x: 2}, {a: 0, x: 1}]\nm: {x: true, y: false}\n",
	"a: {x: 1}\nb: {y: 2}\nc: 0\ns: \"1\"\nt: t\narr: []\nm: {}\n",
	"a: 4\nb: 2.5\nc: -1\ns: s\nt: s\narr: [1, [2, 3]]\nm: {x: 1, y: 1, a: 9}\n",
	"- a: 1\n  m: {x: 1}\n- a: 2\n  m: {x: 2}\n",
	"a: true\nb: false\nc: ~\ns: m\nt: arr\narr: [null, 0, \"\"]\nm: {x: null}\n",
}

func collectPairs(n *N, out map[string]bool) {
	for i, k := range n.Kids {
		if n.K == "bin" && k.K == "bin" && level[n.Op] != level[k.Op] {
			out[fmt.Sprintf("pair:%s>%s:%d", n.Op, k.Op, i)] = true
		}
		collectPairs(k, out)
	}
}

func genCase(t *rapid.T) Case {
	tree := expr(t, rapid.IntRange(1, 4).Draw(t, "depth"))
	s0t := tree.tokens(false)
	c := Case{S0: canonical(s0t)}
	c.Variants = append(c.Variants, Spelling{"full_parens", canonical(tree.tokens(true))})
	for i := 0; i < 2; i++ {
		txt, ch := layout(t, s0t, fmt.Sprintf("l%d", i))
		c.Variants = append(c.Variants, Spelling{"layout", txt})
		if ch >= 2 {
			c.NT = true
		}
	}
	txt, _ := layout(t, tree.tokens(true), "lf")
	c.Variants = append(c.Variants, Spelling{"layout_full", txt})
	c.Variants = append(c.Variants, Spelling{"redundant_parens", canonical(addParens(t, tree).tokens(false))})
	pr := map[string]bool{}
	collectPairs(tree, pr)
	for p := range pr {
		c.Pairs = append(c.Pairs, p)
		c.NT = true
	}
	sort.Strings(c.Pairs)
	for i := 0; i < 3; i++ {
		c.Docs = append(c.Docs, rapid.SampledFrom(docPool).Draw(t, "doc"))
	}
	return c
}

// ---------------------------------------------------------------------------
// operator tree signatures

func opSig(o *yqlib.Operation) string {
	s := o.OperationType.Type
	if o.StringValue != "" || o.Value != nil {
		// the matched text of an operator keeps the blanks around it
		s += "<" + strings.Join(strings.Fields(fmt.Sprintf("%v|%v", o.Value, o.StringValue)), "") + ">"
	}
	if o.CandidateNode != nil {
		s += fmt.Sprintf("{%v %v}", o.CandidateNode.Tag, o.CandidateNode.Value)
	}
	if o.Preferences != nil {
		s += fmt.Sprintf("%+v", o.Preferences)
	}
	if o.UpdateAssign {
		s += "!u"
	}
	return s
}

var assocTypes = map[string]bool{"UNION": true, "OR": true, "AND": true, "PIPE": true}

// sig prints a parse tree with chains of one associative operator and postfix chains (SHORT_PIPE / TRAVERSE_ARRAY) flattened.
func sig(n *yqlib.ExpressionNode) string {
	if n == nil {
		return "_"
	}
	ty := n.Operation.OperationType.Type
	if assocTypes[ty] {
		var parts []string
		var walk func(x *yqlib.ExpressionNode)
		walk = func(x *yqlib.ExpressionNode) {
			if x != nil && x.Operation.OperationType.Type == ty {
				walk(x.LHS)
				walk(x.RHS)
				return
			}
			parts = append(parts, sig(x))
		}
		walk(n)
		return ty + "[" + strings.Join(parts, " ; ") + "]"
	}
	if ty == "SHORT_PIPE" || ty == "TRAVERSE_ARRAY" {
		return "CHAIN[" + strings.Join(steps(n), " ; ") + "]"
	}
	return opSig(n.Operation) + "(" + sig(n.LHS) + ", " + sig(n.RHS) + ")"
}

func steps(n *yqlib.ExpressionNode) []string {
	if n == nil {
		return []string{"_"}
	}
	switch n.Operation.OperationType.Type {
	case "SHORT_PIPE":
		return append(steps(n.LHS), steps(n.RHS)...)
	case "TRAVERSE_ARRAY":
		return append(steps(n.LHS), "IDX"+fmt.Sprintf("%+v", n.Operation.Preferences)+"("+sig(n.RHS)+")")
	}
	return []string{sig(n)}
}

type evalRes struct {
	parseErr string
	tree     string
	outs     []string
}

func evaluate(text string, docs []string) (evalRes, *hx.Verdict) {
	node, o := hx.Parse(text)
	if o.Crashed() {
		v := hx.Bad("panic-site:"+o.PanicSite, "parser panic %s on %q", o.Panic, text)
		return evalRes{}, &v
	}
	if o.Err != "" {
		return evalRes{parseErr: o.Err}, nil
	}
	r := evalRes{tree: sig(node)}
	for _, d := range docs {
		out := hx.Run(text, d, hx.Opts{})
		if out.Crashed() {
			// crashes of evaluation are C11's matter; here both spellings must behave alike
			r.outs = append(r.outs, "panic")
			continue
		}
		if out.Timeout {
			r.outs = append(r.outs, "timeout")
			continue
		}
		if out.Err != "" {
			r.outs = append(r.outs, "error")
			continue
		}
		r.outs = append(r.outs, "ok:"+out.Out)
	}
	return r, nil
}

func checkCase(c Case) hx.Verdict {
	base, bad := evaluate(c.S0, c.Docs)
	if bad != nil {
		return *bad
	}
	labels := append([]string{}, c.Pairs...)
	okDocs := 0
	for _, o := range base.outs {
		if strings.HasPrefix(o, "ok:") {
			okDocs++
		}
	}
	if base.parseErr != "" {
		labels = append(labels, "s0_rejected")
	} else if okDocs > 0 {
		labels = append(labels, "evaluates")
	} else {
		labels = append(labels, "errors_on_all_docs")
	}
	for _, v := range c.Variants {
		r, bad := evaluate(v.Text, c.Docs)
		if bad != nil {
			return *bad
		}
		if (r.parseErr == "") != (base.parseErr == "") {
			return hx.Bad("", "%s: one spelling parses, the other is rejected:\n  S0 %q -> %s\n  %s %q -> %s", v.Label, c.S0, orOK(base.parseErr), v.Label, v.Text, orOK(r.parseErr))
		}
		if r.parseErr != "" {
			continue
		}
		if r.tree != base.tree {
			return hx.Bad("", "%s: the spellings parse to different operator trees:\n  S0 %q\n     %s\n  %s %q\n     %s", v.Label, c.S0, base.tree, v.Label, v.Text, r.tree)
		}
		for i := range r.outs {
			if r.outs[i] != base.outs[i] {
				return hx.Bad("", "%s: the spellings give different results on %q:\n  S0 %q -> %q\n  %s %q -> %q", v.Label, c.Docs[i], c.S0, base.outs[i], v.Label, v.Text, r.outs[i])
			}
		}
	}
	return hx.OK(c.NT, c.S0+"\x00"+c.Variants[1].Text, labels...)
}

func orOK(e string) string {
	if e == "" {
		return "parses"
	}
	return "error: " + e
}

// ---------------------------------------------------------------------------
// equal-level pairs: either bracketing

type EqCase struct {
	Flat  string   `json:"flat"`
	Left  string   `json:"left"`
	Right string   `json:"right"`
	Docs  []string `json:"docs"`
	Pair  string   `json:"pair"`
}

func genEq(t *rapid.T) EqCase {
	lv := rapid.SampledFrom([]int{10, 20, 40, 42}).Draw(t, "lv")
	var ops []string
	for _, o := range binOps {
		if level[o] == lv {
			ops = append(ops, o)
		}
	}
	o1 := rapid.SampledFrom(ops).Draw(t, "o1")
	o2 := rapid.SampledFrom(ops).Draw(t, "o2")
	a, b, c := atom(t), atom(t), atom(t)
	if level[o1] == 40 && strings.HasSuffix(o1, "=") && o1 != "==" && o1 != "!=" && o1 != "<=" && o1 != ">=" {
		a = lhsPath(t)
	}
	flat := append(append(append(append(append([]string{}, a.tokens(false)...), o1), b.tokens(false)...), o2), c.tokens(false)...)
	left := (&N{K: "bin", Op: o2, Kids: []*N{{K: "paren", Kids: []*N{{K: "bin", Op: o1, Kids: []*N{a, b}}}}, c}}).tokens(false)
	right := (&N{K: "bin", Op: o1, Kids: []*N{a, {K: "paren", Kids: []*N{{K: "bin", Op: o2, Kids: []*N{b, c}}}}}}).tokens(false)
	e := EqCase{Flat: canonical(flat), Left: canonical(left), Right: canonical(right), Pair: "eq:" + o1 + " " + o2}
	for i := 0; i < 3; i++ {
		e.Docs = append(e.Docs, rapid.SampledFrom(docPool).Draw(t, "doc"))
	}
	return e
}

func checkEq(c EqCase) hx.Verdict {
	f, bad := evaluate(c.Flat, c.Docs)
	if bad != nil {
		return *bad
	}
	l, bad := evaluate(c.Left, c.Docs)
	if bad != nil {
		return *bad
	}
	r, bad := evaluate(c.Right, c.Docs)
	if bad != nil {
		return *bad
	}
	same := func(x evalRes) bool {
		return x.parseErr == "" && x.tree == f.tree && fmt.Sprint(x.outs) == fmt.Sprint(f.outs)
	}
	if f.parseErr != "" {
		if l.parseErr == "" || r.parseErr == "" {
			return hx.Bad("", "%q is rejected (%s) although a bracketing of it parses: %q / %q", c.Flat, f.parseErr, c.Left, c.Right)
		}
		return hx.OK(false, c.Flat, "eq_rejected")
	}
	if !same(l) && !same(r) {
		return hx.Bad("", "%q parses as neither %q nor %q:\n  flat  %s %v\n  left  %s %v\n  right %s %v", c.Flat, c.Left, c.Right, f.tree, f.outs, l.tree, l.outs, r.tree, r.outs)
	}
	return hx.OK(true, c.Flat, c.Pair)
}

// ---------------------------------------------------------------------------
// malformed texts

type BadCase struct {
	Text string `json:"text"`
	From string `json:"from"`
	How  string `json:"how"`
}

var openers = map[string]string{"(": ")", "[": "]", "{": "}", ".[": "]"}

func isBracket(s string) bool {
	switch s {
	case "(", ")", "[", "]", "{", "}", ".[":
		return true
	}
	return false
}

// operand spans of the binary operators in a printed tree
type span struct{ from, to int }

func (n *N) operandSpans(full bool, off int, out *[]span) int {
	// returns the number of tokens printed; mirrors tokens(false)
	switch n.K {
	case "atom":
		return len(n.Toks)
	case "paren":
		return 2 + n.Kids[0].operandSpans(full, off+1, out)
	case "bin":
		lo := off
		lw := 0
		if needParens(n, 0) {
			lw = 2 + n.Kids[0].operandSpans(full, off+1, out)
		} else {
			lw = n.Kids[0].operandSpans(full, off, out)
		}
		ro := lo + lw + 1
		rw := 0
		if needParens(n, 1) {
			rw = 2 + n.Kids[1].operandSpans(full, ro+1, out)
		} else {
			rw = n.Kids[1].operandSpans(full, ro, out)
		}
		if n.Op != ":" && n.Op != ";" {
			*out = append(*out, span{lo, lo + lw}, span{ro, ro + rw})
		}
		return lw + 1 + rw
	case "call":
		return 3 + n.Kids[0].operandSpans(full, off+2, out)
	case "collect", "object":
		if len(n.Kids) == 0 {
			return 2
		}
		return 2 + n.Kids[0].operandSpans(full, off+1, out)
	case "postfix":
		base := n.Kids[0]
		w := 0
		if base.K == "bin" || baseNeedsParens(base) {
			w = 2 + base.operandSpans(full, off+1, out)
		} else {
			w = base.operandSpans(full, off, out)
		}
		if n.Op == "path" {
			return w + len(n.Toks)
		}
		if len(n.Kids) > 1 {
			return w + 2 + n.Kids[1].operandSpans(full, off+w+1, out)
		}
		return w + 2
	}
	panic("kind")
}

func genBad(t *rapid.T) BadCase {
	tree := expr(t, rapid.IntRange(1, 3).Draw(t, "depth"))
	toks := tree.tokens(false)
	from := canonical(toks)
	var brIdx []int
	for i, tk := range toks {
		if isBracket(tk) {
			brIdx = append(brIdx, i)
		}
	}
	var spans []span
	n := tree.operandSpans(false, 0, &spans)
	if n != len(toks) {
		panic(fmt.Sprintf("span bookkeeping: %d vs %d for %q", n, len(toks), from))
	}
	how := rapid.SampledFrom([]string{"drop_bracket", "swap_closer", "extra_closer", "extra_opener", "drop_operand", "dangling_operator", "leading_operator", "closer_then_opener"}).Draw(t, "how")
	out := append([]string{}, toks...)
	switch how {
	case "drop_bracket", "swap_closer":
		if len(brIdx) == 0 {
			how = "dangling_operator"
			break
		}
		i := rapid.SampledFrom(brIdx).Draw(t, "bi")
		if how == "drop_bracket" {
			if toks[i] == ".[" {
				out[i] = "." // `.[` is SELF + `[`: dropping the bracket leaves the dot
			} else {
				out = append(out[:i], out[i+1:]...)
			}
		} else {
			switch toks[i] {
			case ")":
				out[i] = rapid.SampledFrom([]string{"]", "}"}).Draw(t, "sw")
			case "]":
				out[i] = rapid.SampledFrom([]string{")", "}"}).Draw(t, "sw")
			case "}":
				out[i] = rapid.SampledFrom([]string{")", "]"}).Draw(t, "sw")
			case "(":
				out[i] = rapid.SampledFrom([]string{"[", "{"}).Draw(t, "sw")
			case "[", ".[":
				out[i] = rapid.SampledFrom([]string{"(", "{"}).Draw(t, "sw")
			case "{":
				out[i] = rapid.SampledFrom([]string{"(", "["}).Draw(t, "sw")
			}
		}
	case "extra_closer":
		i := rapid.IntRange(1, len(toks)).Draw(t, "pos")
		out = append(append(append([]string{}, toks[:i]...), rapid.SampledFrom([]string{")", "]", "}"}).Draw(t, "cl")), toks[i:]...)
	case "extra_opener":
		i := rapid.IntRange(0, len(toks)-1).Draw(t, "pos")
		out = append(append(append([]string{}, toks[:i]...), rapid.SampledFrom([]string{"(", "[", "{"}).Draw(t, "op")), toks[i:]...)
	case "closer_then_opener":
		// as many closers as openers, but a closer comes first at bracket depth 0: `.a ) | ( .b`, `.a | .b ) (`
		var zero []int // token boundaries at depth 0 (after token i-1)
		depth := 0
		for i, tk := range toks {
			switch tk {
			case "(", "[", ".[", "{":
				depth++
			case ")", "]", "}":
				depth--
			}
			if depth == 0 {
				zero = append(zero, i+1)
			}
		}
		i := rapid.SampledFrom(zero).Draw(t, "cpos")
		j := rapid.IntRange(i, len(toks)).Draw(t, "opos")
		pair := rapid.SampledFrom([][2]string{{")", "("}, {")", "("}, {"]", "["}, {"}", "{"}}).Draw(t, "pair")
		out = append(append(append(append(append([]string{}, toks[:i]...), pair[0]), toks[i:j]...), pair[1]), toks[j:]...)
	case "drop_operand":
		if len(spans) == 0 {
			how = "dangling_operator"
			break
		}
		s := rapid.SampledFrom(spans).Draw(t, "span")
		out = append(append([]string{}, toks[:s.from]...), toks[s.to:]...)
	}
	switch how {
	case "dangling_operator":
		out = append(out, rapid.SampledFrom(binOps).Draw(t, "dop"))
	case "leading_operator":
		out = append([]string{rapid.SampledFrom([]string{",", "or", "and", "|", "=", "|=", "==", "!=", "<", ">", "*", "/", "%", "+", "//"}).Draw(t, "lop")}, out...)
	}
	return BadCase{Text: canonical(out), From: from, How: how}
}

func checkBad(c BadCase) hx.Verdict {
	// the original must parse for the damage to be the cause of the rejection
	if _, o := hx.Parse(c.From); o.Err != "" || o.Crashed() {
		return hx.Disc("original_rejected")
	}
	_, o := hx.Parse(c.Text)
	if o.Crashed() {
		return hx.Bad("panic-site:"+o.PanicSite, "parser panic %s on %q", o.Panic, c.Text)
	}
	if o.Err == "" {
		return hx.Bad("", "%s: %q (from %q) is accepted by the parser", c.How, c.Text, c.From)
	}
	return hx.OK(true, c.Text, "bad:"+c.How)
}

func TestProp(t *testing.T) {
	hx.RunProperty(t,
		hx.NewSub("spellings", 2500, 40000, genCase, checkCase),
		hx.NewSub("equal_level", 2000, 15000, genEq, checkEq),
		hx.NewSub("malformed", 4000, 60000, genBad, checkBad),
		hx.NewSub("interpolation", 1500, 15000, genInterp, checkInterp),
	)
}
