package c09

import (
	"fmt"
	"strings"

	"pgregory.net/rapid"
	"verif/gen"
	"verif/hx"
)

// Sub "interpolation": what stands between `\(` and its closing `)` inside a string is an expression like any
// other: it may hold brackets of its own, be wrapped in redundant parentheses, and there may be several of them in
// one string. Oracle: the string equals the concatenation of its literal segments and the results (`tostring`) of
// the inner expressions evaluated on their own.

type InterpCase struct {
	Segs  []string `json:"segs"`  // n+1 literal segments
	Exprs []string `json:"exprs"` // n inner expressions, as written
	Bare  []string `json:"bare"`  // the same expressions without the redundant parentheses
}

const interpDoc = "a: 5\nb: x\nc: {x: 7, y: [1, 2, 3]}\ns: 'p q'\n"

var interpExprs = []string{".a", ".b", ".c.x", "(.a + 1) * 2", ".a * (1 + 1)", ".c.y | length", "[.a, (.c.x)] | length", ".c | (.x)", "(.c.y | .[0]) + (.c.y | .[1])", ".s", ".c.y | map(. * 2) | .[2]", "(.b | length)", ".a - (.c.x - 1)", "((.a))", "1"}

func genInterp(t *rapid.T) InterpCase {
	var c InterpCase
	n := rapid.IntRange(1, 3).Draw(t, "n")
	seg := rapid.SampledFrom([]string{"", "-", "x: ", " and ", ")", "(", " ( ", "#", "é"})
	for i := 0; i < n; i++ {
		c.Segs = append(c.Segs, seg.Draw(t, "seg"))
		e := rapid.SampledFrom(interpExprs).Draw(t, "e")
		w := e
		for k := rapid.IntRange(0, 2).Draw(t, "wrap"); k > 0; k-- {
			w = "(" + w + ")"
		}
		if rapid.IntRange(0, 3).Draw(t, "ws") == 0 {
			w = " " + w + " "
		}
		c.Bare = append(c.Bare, e)
		c.Exprs = append(c.Exprs, w)
	}
	c.Segs = append(c.Segs, seg.Draw(t, "seg"))
	return c
}

func checkInterp(c InterpCase) hx.Verdict {
	var text, want strings.Builder
	text.WriteString(`"`)
	for i, e := range c.Exprs {
		text.WriteString(c.Segs[i] + `\(` + e + `)`)
		want.WriteString(c.Segs[i])
		o := hx.Run(c.Bare[i]+" | tostring", interpDoc, hx.Opts{})
		if !o.OK() {
			return hx.Disc("inner_expression_fails")
		}
		want.WriteString(strings.TrimSuffix(o.Out, "\n"))
	}
	text.WriteString(c.Segs[len(c.Exprs)] + `"`)
	want.WriteString(c.Segs[len(c.Exprs)])
	o := hx.Run(text.String(), interpDoc, hx.Opts{})
	if o.Crashed() {
		return hx.Bad("panic-site:"+o.PanicSite, "panic %s on %s", o.Panic, text.String())
	}
	if o.Err != "" {
		return hx.Bad("", "%s fails (%s); its parts evaluate to %q", text.String(), o.Err, want.String())
	}
	if got := strings.TrimSuffix(o.Out, "\n"); got != want.String() {
		return hx.Bad("", "%s gives %q; its literal segments and the results of its inner expressions give %q", text.String(), got, want.String())
	}
	nested := false
	for _, e := range c.Exprs {
		nested = nested || strings.Contains(e, "(")
	}
	return hx.OK(len(c.Exprs) >= 2 && nested, text.String(), fmt.Sprintf("interpolations:%d", len(c.Exprs)), fmt.Sprintf("nested_brackets:%v", nested))
}

var _ = gen.Quote
