package c10

import (
	"fmt"
	"os"
	"path/filepath"
	"strings"
	"testing"
	"time"

	"pgregory.net/rapid"
	"verif/gen"
	"verif/hx"
	"verif/model"
	"verif/ref"
)

const rule = "case = (1-4 files, each 0-4 YAML documents (with and without a leading ---, with a leading comment block, later files that begin with a comment, empty files); a document-local expression (typed core expression, update, or the provenance probe); eval | eval-all; -N on/off), run through the real binary. " +
	"oracle: (1) the JSON value stream of the whole run equals the concatenation, in file and document order, of what the same expression yields on a file holding just that document; (2) `[di, fi, filename]` equals the generator's bookkeeping (document position in its file, file position counting empty files, the path as given); (3) for `.` the YAML output, read by an independent reader, has as many documents as the input, equal to them in order; (4) on single-document input eval and eval-all print the same for expressions whose traversals are total. " +
	"non-trivial = >= 2 documents in total; distinct by (files, expression, flags) Sub formats: 2-4 files of one input format (YAML with 1-3 documents and header comments on the first document of a file, JSON, properties, TOML, Lua, XML, CSV, TSV) printed as JSON / XML / properties / Lua / YAML; oracle: the bytes of the whole run are the bytes of the runs over each document alone, one after the other (joined by `---` for YAML output), and `di, fi, filename, length` equal the bookkeeping in both modes; the decoder's internal separator marker never appears in any output."

func TestMain(m *testing.M) {
	hx.Main(m, "C10", rule,
		"placement of comments relative to separators is C05's topic; expressions that fail on some document are judged in C19",
		"documents are alias-free JSON-model values printed as YAML; decorations (---, comments) are added by the generator")
}

type File struct {
	Docs    []string `json:"docs"` // YAML text of each document (no separator)
	Sep0    bool     `json:"sep0"` // first document starts with ---
	Comment string   `json:"comment,omitempty"`
	Name    string   `json:"name"`
	Arg     string   `json:"arg,omitempty"` // the spelling of the path given on the command line (./f0.yaml, sub/../f0.yaml); filename reports it as given
	JSON    bool     `json:"json,omitempty"` // a JSON stream: values one after the other, no separators
}

type Case struct {
	Files   []File `json:"files"`
	Expr    string `json:"expr"`
	AST     *ref.E `json:"ast,omitempty"`
	EvalAll bool   `json:"eval_all"`
	NoSep   bool   `json:"no_sep"`
	Probe   string `json:"probe"` // values | provenance | count | eval_vs_all
}

func yamlOf(v *model.Value) string {
	// JSON flow text is YAML; keep it on one line
	return v.JSON() + "\n"
}

func (f File) arg() string {
	if f.Arg != "" {
		return f.Arg
	}
	return f.Name
}

func (f File) text() string {
	var b strings.Builder
	if f.JSON {
		for _, d := range f.Docs {
			b.WriteString(d)
		}
		return b.String()
	}
	if f.Comment != "" {
		b.WriteString("# " + f.Comment + "\n")
	}
	for i, d := range f.Docs {
		if i > 0 || f.Sep0 {
			b.WriteString("---\n")
		}
		b.WriteString(d)
	}
	return b.String()
}

func genCase(t *rapid.T) Case {
	var c Case
	nf := rapid.IntRange(1, 4).Draw(t, "nfiles")
	allJSON := rapid.IntRange(0, 4).Draw(t, "json") == 0
	commentOnly := false
	var first *model.Value
	for i := 0; i < nf; i++ {
		f := File{Name: fmt.Sprintf("f%d.yaml", i), Sep0: rapid.Bool().Draw(t, "sep0")}
		if allJSON {
			f.JSON, f.Name, f.Sep0 = true, fmt.Sprintf("f%d.json", i), false
		}
		if rapid.IntRange(0, 3).Draw(t, "argspelling") == 0 {
			f.Arg = rapid.SampledFrom([]string{"./", ".//", "sub/../", "./sub/.././"}).Draw(t, "argpre") + f.Name
		}
		nd := rapid.IntRange(0, 3).Draw(t, "ndocs")
		if nf == 1 && nd == 0 {
			nd = 1
		}
		for j := 0; j < nd; j++ {
			d := gen.JSONDoc(t, gen.DocOpts{Depth: 2, Width: 3, SimpleStr: true, NoFloats: true})
			if first == nil {
				first = d
			}
			f.Docs = append(f.Docs, yamlOf(d))
		}
		if !allJSON && rapid.IntRange(0, 7).Draw(t, "commentonly") == 0 {
			// a file that holds nothing but a comment: yq reads it as one document (null)
			f.Docs = []string{fmt.Sprintf("# only a comment %d\n", i)}
			f.Sep0, f.Comment = false, ""
			commentOnly = true
			c.Files = append(c.Files, f)
			continue
		}
		if nd > 0 && !allJSON && rapid.IntRange(0, 3).Draw(t, "comment") == 0 {
			f.Comment = fmt.Sprintf("header of file %d", i)
		}
		c.Files = append(c.Files, f)
	}
	if first == nil {
		first = model.NewMap()
	}
	c.Probe = rapid.SampledFrom([]string{"values", "values", "values", "provenance", "count", "eval_vs_all"}).Draw(t, "probe")
	c.EvalAll = rapid.IntRange(0, 3).Draw(t, "ea") == 0 && !commentOnly // (eval-all merges the comments of later files by design)
	c.NoSep = rapid.Bool().Draw(t, "nosep")
	switch c.Probe {
	case "values":
		switch rapid.IntRange(0, 3).Draw(t, "ek") {
		case 0:
			c.Expr = rapid.SampledFrom([]string{".", ".[]", "..", ".a", "length", "keys", "[.[] | select(. != null)]", ".a = 1", ".[0] = \"x\"", "del(.a)", ". as $x | [$x]", "to_entries", "[length, length]", "sort_keys(.)", "(.. | select(tag == \"!!int\")) |= . + 1",
				// literals of the expression updated in place: the parsed expression is shared by all documents
				"[.. | select(tag == \"!!int\")] | (.[] as $i ireduce (0; . += $i))", "(\"a\" | . += \"b\")", "[length] | .[0] += 1", "{\"n\": 0} | .n += 1"}).Draw(t, "simple")
		default:
			c.AST = gen.CoreExpr(t, first, 2)
			c.Expr = ref.Print(c.AST)
		}
		// eval-all evaluates the expression once over all documents: only per-node expressions are document-local there
		if c.EvalAll {
			c.Expr = rapid.SampledFrom([]string{".", ".[]", ".a", "length", "keys", "to_entries", ".a = 1", "del(.a)", "sort_keys(.)"}).Draw(t, "easimple")
			c.AST = nil
		}
	case "provenance":
		c.Expr = "[di, fi, filename]"
	case "count":
		c.Expr = "."
	case "eval_vs_all":
		c.Files = c.Files[:1]
		if len(c.Files[0].Docs) == 0 {
			c.Files[0].Docs = []string{yamlOf(first)}
		}
		c.Files[0].Docs = c.Files[0].Docs[:1]
		c.AST = gen.CoreExpr(t, first, 2)
		c.Expr = ref.Print(c.AST)
	}
	return c
}

const runLimit = 60 * time.Second

func workdir() string {
	d := filepath.Join(hx.WorkDir(), "c10")
	_ = os.MkdirAll(filepath.Join(d, "sub"), 0o755)
	return d
}

func run(args []string) hx.BinResult {
	return hx.RunBin(workdir(), args, nil, nil, 60*time.Second)
}

func crashed(r hx.BinResult) bool {
	return r.Signal != "" || (r.Exit == 2 && strings.Contains(r.Stderr, "goroutine "))
}

func check(c Case) hx.Verdict {
	dir := workdir()
	var names []string
	total := 0
	for _, f := range c.Files {
		p := filepath.Join(dir, f.Name)
		if err := os.WriteFile(p, []byte(f.text()), 0o644); err != nil {
			return hx.Disc("write")
		}
		names = append(names, f.arg())
		total += len(f.Docs)
	}
	pre := []string{}
	if c.EvalAll {
		pre = append(pre, "ea")
	}
	labels := []string{"probe:" + c.Probe, fmt.Sprintf("files:%d", len(c.Files))}
	for i, f := range c.Files {
		if len(f.Docs) == 0 && i > 0 && i < len(c.Files)-1 {
			labels = append(labels, "empty_file_middle")
		}
		if f.Comment != "" && i > 0 {
			labels = append(labels, "later_file_leading_comment")
		}
	}
	key := fmt.Sprint(c.Files, c.Expr, c.EvalAll, c.NoSep)
	switch c.Probe {
	case "values":
		args := append(append([]string{}, pre...), "-o=json", "-I=0", "--expression", c.Expr)
		whole := run(append(args, names...))
		if crashed(whole) {
			return hx.Bad("panic-site:binary", "yq crashed: %v %.300s", args, whole.Stderr)
		}
		// per document
		var want []string
		failed := false
		for _, f := range c.Files {
			sname := "single.yaml"
			if f.JSON {
				sname = "single.json"
			}
			single := filepath.Join(dir, sname)
			for _, d := range f.Docs {
				_ = os.WriteFile(single, []byte(d), 0o644)
				r := run(append(append([]string{}, args...), sname))
				if crashed(r) {
					return hx.Bad("panic-site:binary", "yq crashed on %q: %.300s", d, r.Stderr)
				}
				if r.Exit != 0 {
					failed = true
					break
				}
				want = append(want, r.Stdout)
			}
		}
		if failed || whole.Exit != 0 {
			if failed != (whole.Exit != 0) && total > 0 {
				return hx.Bad("", "the run over all files exits %d but running per document failed=%v: expr=%s files=%q", whole.Exit, failed, c.Expr, texts(c))
			}
			return hx.Unspec("expression_fails_on_some_document")
		}
		if total == 0 {
			return hx.Unspec("no_documents")
		}
		wv, err1 := model.ParseJSONStream(strings.Join(want, ""))
		gv, err2 := model.ParseJSONStream(whole.Stdout)
		if err1 != nil || err2 != nil {
			return hx.Bad("", "output is not a JSON stream (%v / %v): %q", err1, err2, whole.Stdout)
		}
		if len(wv) != len(gv) {
			return hx.Bad("", "the whole run yields %d results, the documents one by one %d: expr=%s files=%q\nwhole: %q\nper document: %q", len(gv), len(wv), c.Expr, texts(c), whole.Stdout, want)
		}
		for i := range wv {
			if !model.Equal(wv[i], gv[i]) {
				return hx.Bad("", "result %d differs between the whole run (%s) and its document alone (%s): expr=%s files=%q", i, gv[i].JSON(), wv[i].JSON(), c.Expr, texts(c))
			}
		}
		return hx.OK(total >= 2, key, labels...)
	case "provenance":
		args := append(append([]string{}, pre...), "-o=json", "-I=0", "--expression", c.Expr)
		r := run(append(args, names...))
		if crashed(r) {
			return hx.Bad("panic-site:binary", "yq crashed: %.300s", r.Stderr)
		}
		if total == 0 {
			return hx.Unspec("no_documents")
		}
		if r.Exit != 0 {
			return hx.Bad("", "provenance probe failed (%q): files=%q", r.Stderr, texts(c))
		}
		got, err := model.ParseJSONStream(r.Stdout)
		if err != nil {
			return hx.Bad("", "not JSON: %q", r.Stdout)
		}
		var want []*model.Value
		for fi, f := range c.Files {
			for di := range f.Docs {
				want = append(want, model.NewSeq(model.NewInt(int64(di)), model.NewInt(int64(fi)), model.NewStr(f.arg())))
			}
		}
		if c.EvalAll {
			// one evaluation over all documents: di/fi/filename map each document
			if len(got) != len(want) {
				return hx.Unspec("eval_all_provenance_shape")
			}
		}
		if len(got) != len(want) {
			return hx.Bad("", "provenance: %d results for %d documents: got %q files=%q", len(got), len(want), r.Stdout, texts(c))
		}
		for i := range want {
			if !model.Equal(got[i], want[i]) {
				return hx.Bad("", "provenance of document %d is %s, expected %s: files=%q", i, got[i].JSON(), want[i].JSON(), texts(c))
			}
		}
		return hx.OK(total >= 2, key, labels...)
	case "count":
		for _, f := range c.Files {
			if len(f.Docs) == 1 && strings.HasPrefix(f.Docs[0], "#") {
				return hx.Unspec("comment_only_file_in_count_probe") // a stream of comments reads back as zero documents
			}
		}
		args := append(append([]string{}, pre...), "-o=yaml", "--expression", ".")
		if c.NoSep {
			args = append([]string{"-N"}, args...)
		}
		r := run(append(args, names...))
		if crashed(r) {
			return hx.Bad("panic-site:binary", "yq crashed: %.300s", r.Stderr)
		}
		if r.Exit != 0 {
			return hx.Bad("", "identity over the files failed (%q): files=%q", r.Stderr, texts(c))
		}
		if c.NoSep {
			return hx.OK(false, key, append(labels, "no_separators")...)
		}
		docs, err := hx.ReadYAMLv2(r.Stdout)
		if err != nil {
			return hx.Bad("", "identity output unreadable (%v): %q from files=%q", err, r.Stdout, texts(c))
		}
		var want []*model.Value
		for _, f := range c.Files {
			for _, d := range f.Docs {
				if strings.HasPrefix(d, "#") {
					want = append(want, model.NewNull())
					continue
				}
				v, err := model.ParseJSON(strings.TrimSpace(d))
				if err != nil {
					return hx.Disc("doc")
				}
				want = append(want, v)
			}
		}
		if total == 0 {
			return hx.Unspec("no_documents")
		}
		if len(docs) != len(want) {
			sig := ""
			for i, f := range c.Files {
				if i > 0 && f.Comment != "" {
					sig = "input-shape:later-file-leading-comment"
				}
			}
			return hx.Bad(sig, "%d input documents give %d output documents: output %q files=%q", len(want), len(docs), r.Stdout, texts(c))
		}
		for i := range want {
			if !model.EqualUnordered(docs[i], want[i]) {
				return hx.Bad("", "document %d changed: %s vs %s", i, docs[i].JSON(), want[i].JSON())
			}
		}
		return hx.OK(total >= 2, key, labels...)
	case "eval_vs_all":
		doc, err := model.ParseJSON(strings.TrimSpace(c.Files[0].Docs[0]))
		if err != nil || c.AST == nil {
			return hx.Disc("doc")
		}
		// only expressions whose traversals are total: the reference reports no missing read and a defined result
		ref.Misses = 0
		res, rerr := ref.Eval(c.AST, []*model.Value{doc}, ref.Env{})
		if rerr != nil || ref.Misses > 0 {
			return hx.Unspec("not_total")
		}
		emptyOperand := false
		c.AST.Walk(func(e *ref.E) {
			if e.Op == "select" || e.Op == "bin" {
				emptyOperand = emptyOperand || len(res) == 0
			}
		})
		a := run([]string{"-o=json", "-I=0", "--expression", c.Expr, c.Files[0].arg()})
		b := run([]string{"ea", "-o=json", "-I=0", "--expression", c.Expr, c.Files[0].arg()})
		if crashed(a) || crashed(b) {
			return hx.Bad("panic-site:binary", "yq crashed: %s", c.Expr)
		}
		if a.Exit != b.Exit || a.Stdout != b.Stdout {
			sig := ""
			if hasEmptyStream(c.AST, doc) {
				sig = "unspecified"
			}
			if sig != "" {
				return hx.Unspec("empty_operand_stream")
			}
			return hx.Bad("", "eval and eval-all disagree on a single document: eval (exit %d) %q, eval-all (exit %d) %q: expr=%s doc=%s", a.Exit, a.Stdout, b.Exit, b.Stdout, c.Expr, c.Files[0].Docs[0])
		}
		return hx.OK(true, key, labels...)
	}
	return hx.Disc("probe")
}

// hasEmptyStream: some sub-expression of a binary operator yields no result on the document
// (EvaluateTogether changes how empty operands pair up - the statement restricts the claim to total traversals).
func hasEmptyStream(e *ref.E, doc *model.Value) bool {
	found := false
	var walk func(x *ref.E, ctx []*model.Value)
	walk = func(x *ref.E, ctx []*model.Value) {
		if len(ctx) != 1 {
			// constructors and binary operators over a context of several nodes: eval-all pairs / collects them together
			x.Walk(func(y *ref.E) {
				switch y.Op {
				case "collect", "object", "bin", "lit", "var", "as", "reduce", "select", "map", "with_entries", "group_by", "any_c", "all_c", "contains":
					found = true
				}
			})
		}
		if x.Op == "bin" {
			for _, a := range x.A {
				for _, c := range ctx {
					r, err := ref.Eval(a, []*model.Value{c}, ref.Env{})
					if err != nil || len(r) == 0 {
						found = true
					}
				}
			}
		}
		if x.Op == "pipe" {
			walk(x.A[0], ctx)
			mid, err := ref.Eval(x.A[0], ctx, ref.Env{})
			if err != nil {
				found = true
				return
			}
			walk(x.A[1], mid)
			return
		}
		for _, a := range x.A {
			walk(a, ctx)
		}
	}
	walk(e, []*model.Value{doc})
	return found
}

func texts(c Case) []string {
	var out []string
	for _, f := range c.Files {
		out = append(out, f.text())
	}
	return out
}

func TestProp(t *testing.T) {
	if hx.YqPath() == "" {
		t.Skip("no binary")
	}
	hx.RunProperty(t, hx.NewSub("multidoc", 700, 6000, genCase, check), hx.NewSub("formats", 500, 5000, genFCase, checkF))
}
