package c10

import (
	"fmt"
	"os"
	"path/filepath"
	"sort"
	"strings"

	"pgregory.net/rapid"
	"verif/hx"
	"verif/model"
)

// Sub "formats": the files of one run are written in one of the input formats (YAML with several documents and
// header comments, JSON, properties, TOML, Lua, XML, CSV, TSV), the results are printed in one of the output
// formats. Oracle: the bytes the whole run prints are the bytes the runs over each document alone print, one
// after the other (joined by `---` for YAML output); `[di, fi, filename]` equals the bookkeeping.

// FVal is a small document tree every format can hold: a map of scalars, flat maps and scalar lists.
type FVal struct {
	S string            `json:"s,omitempty"`
	I *int              `json:"i,omitempty"`
	M map[string]string `json:"m,omitempty"`
	L []string          `json:"l,omitempty"`
}

type FDoc struct {
	Keys    []string        `json:"keys"`
	Vals    map[string]FVal `json:"vals"`
	Comment string          `json:"comment,omitempty"` // YAML only: header comment of the document
	Sep     bool            `json:"sep,omitempty"`     // YAML only: the first document of a file starts with ---
}

type FCase struct {
	Format  string   `json:"format"`
	Files   [][]FDoc `json:"files"`
	Out     string   `json:"out"`
	Expr    string   `json:"expr"`
	EvalAll bool     `json:"eval_all"`
	NoSep   bool     `json:"no_sep"`
	Probe   string   `json:"probe"` // bytes | provenance
}

var fmtIn = []string{"yaml", "yaml", "json", "props", "toml", "toml", "lua", "xml", "csv", "tsv"}
var fmtKeys = []string{"a", "b", "c", "name", "kind", "owner", "limits", "title"}
var fmtWords = []string{"alpha", "beta", "gamma", "x", "y1", "z"}

func genFDoc(t *rapid.T, format string) FDoc {
	d := FDoc{Vals: map[string]FVal{}}
	n := rapid.IntRange(1, 4).Draw(t, "nkeys")
	for len(d.Keys) < n {
		k := rapid.SampledFrom(fmtKeys).Draw(t, "key")
		if _, dup := d.Vals[k]; dup {
			continue
		}
		var v FVal
		kind := rapid.IntRange(0, 5).Draw(t, "vk")
		if format == "csv" || format == "tsv" {
			kind = kind % 2
		}
		switch kind {
		case 0, 4:
			v.S = rapid.SampledFrom(fmtWords).Draw(t, "s")
		case 1, 5:
			i := rapid.IntRange(0, 40).Draw(t, "i")
			v.I = &i
		case 2:
			v.M = map[string]string{}
			for j := rapid.IntRange(1, 2).Draw(t, "nm"); j > 0; j-- {
				v.M[rapid.SampledFrom([]string{"id", "cpu", "mem"}).Draw(t, "mk")] = rapid.SampledFrom(fmtWords).Draw(t, "mv")
			}
		case 3:
			for j := rapid.IntRange(2, 3).Draw(t, "nl"); j > 0; j-- {
				v.L = append(v.L, rapid.SampledFrom(fmtWords).Draw(t, "lv"))
			}
		}
		d.Keys = append(d.Keys, k)
		d.Vals[k] = v
	}
	return d
}

func mkeys(m map[string]string) []string {
	var ks []string
	for k := range m {
		ks = append(ks, k)
	}
	sort.Strings(ks)
	return ks
}

// text renders one document in the given format (a complete, valid input text)
func (d FDoc) text(format string) string {
	var b strings.Builder
	scalar := func(v FVal) string {
		if v.I != nil {
			return fmt.Sprint(*v.I)
		}
		return v.S
	}
	switch format {
	case "yaml":
		if d.Comment != "" {
			b.WriteString("# " + d.Comment + "\n")
		}
		for _, k := range d.Keys {
			v := d.Vals[k]
			switch {
			case v.M != nil:
				b.WriteString(k + ":\n")
				for _, mk := range mkeys(v.M) {
					fmt.Fprintf(&b, "  %s: %s\n", mk, v.M[mk])
				}
			case v.L != nil:
				b.WriteString(k + ":\n")
				for _, x := range v.L {
					fmt.Fprintf(&b, "  - %s\n", x)
				}
			default:
				fmt.Fprintf(&b, "%s: %s\n", k, scalar(v))
			}
		}
	case "json":
		b.WriteString("{")
		for i, k := range d.Keys {
			if i > 0 {
				b.WriteString(", ")
			}
			v := d.Vals[k]
			fmt.Fprintf(&b, "%q: ", k)
			switch {
			case v.M != nil:
				b.WriteString("{")
				for j, mk := range mkeys(v.M) {
					if j > 0 {
						b.WriteString(", ")
					}
					fmt.Fprintf(&b, "%q: %q", mk, v.M[mk])
				}
				b.WriteString("}")
			case v.L != nil:
				b.WriteString("[")
				for j, x := range v.L {
					if j > 0 {
						b.WriteString(", ")
					}
					fmt.Fprintf(&b, "%q", x)
				}
				b.WriteString("]")
			case v.I != nil:
				fmt.Fprint(&b, *v.I)
			default:
				fmt.Fprintf(&b, "%q", v.S)
			}
		}
		b.WriteString("}\n")
	case "props":
		for _, k := range d.Keys {
			v := d.Vals[k]
			switch {
			case v.M != nil:
				for _, mk := range mkeys(v.M) {
					fmt.Fprintf(&b, "%s.%s = %s\n", k, mk, v.M[mk])
				}
			case v.L != nil:
				for j, x := range v.L {
					fmt.Fprintf(&b, "%s.%d = %s\n", k, j, x)
				}
			default:
				fmt.Fprintf(&b, "%s = %s\n", k, scalar(v))
			}
		}
	case "toml":
		// plain keys first, tables after them
		for _, k := range d.Keys {
			v := d.Vals[k]
			switch {
			case v.M != nil:
			case v.L != nil:
				b.WriteString(k + " = [")
				for j, x := range v.L {
					if j > 0 {
						b.WriteString(", ")
					}
					fmt.Fprintf(&b, "%q", x)
				}
				b.WriteString("]\n")
			case v.I != nil:
				fmt.Fprintf(&b, "%s = %d\n", k, *v.I)
			default:
				fmt.Fprintf(&b, "%s = %q\n", k, v.S)
			}
		}
		for _, k := range d.Keys {
			if v := d.Vals[k]; v.M != nil {
				fmt.Fprintf(&b, "[%s]\n", k)
				for _, mk := range mkeys(v.M) {
					fmt.Fprintf(&b, "%s = %q\n", mk, v.M[mk])
				}
			}
		}
	case "lua":
		b.WriteString("return {\n")
		for _, k := range d.Keys {
			v := d.Vals[k]
			switch {
			case v.M != nil:
				fmt.Fprintf(&b, "\t[%q] = {", k)
				for _, mk := range mkeys(v.M) {
					fmt.Fprintf(&b, "[%q] = %q; ", mk, v.M[mk])
				}
				b.WriteString("};\n")
			case v.L != nil:
				fmt.Fprintf(&b, "\t[%q] = {", k)
				for _, x := range v.L {
					fmt.Fprintf(&b, "%q, ", x)
				}
				b.WriteString("};\n")
			case v.I != nil:
				fmt.Fprintf(&b, "\t[%q] = %d;\n", k, *v.I)
			default:
				fmt.Fprintf(&b, "\t[%q] = %q;\n", k, v.S)
			}
		}
		b.WriteString("}\n")
	case "xml":
		b.WriteString("<root>")
		for _, k := range d.Keys {
			v := d.Vals[k]
			switch {
			case v.M != nil:
				fmt.Fprintf(&b, "<%s>", k)
				for _, mk := range mkeys(v.M) {
					fmt.Fprintf(&b, "<%s>%s</%s>", mk, v.M[mk], mk)
				}
				fmt.Fprintf(&b, "</%s>", k)
			case v.L != nil:
				for _, x := range v.L {
					fmt.Fprintf(&b, "<%s>%s</%s>", k, x, k)
				}
			default:
				fmt.Fprintf(&b, "<%s>%s</%s>", k, scalar(v), k)
			}
		}
		b.WriteString("</root>\n")
	case "csv", "tsv":
		sep := ","
		if format == "tsv" {
			sep = "\t"
		}
		b.WriteString(strings.Join(d.Keys, sep) + "\n")
		var row []string
		for _, k := range d.Keys {
			row = append(row, scalar(d.Vals[k]))
		}
		b.WriteString(strings.Join(row, sep) + "\n")
	}
	return b.String()
}

func fileText(format string, docs []FDoc) string {
	var b strings.Builder
	for i, d := range docs {
		if format == "yaml" && (i > 0 || d.Sep) {
			b.WriteString("---\n")
		}
		b.WriteString(d.text(format))
	}
	return b.String()
}

func genFCase(t *rapid.T) FCase {
	c := FCase{Format: rapid.SampledFrom(fmtIn).Draw(t, "format")}
	nf := rapid.IntRange(2, 4).Draw(t, "nfiles")
	for i := 0; i < nf; i++ {
		nd := 1
		if c.Format == "yaml" {
			nd = rapid.IntRange(1, 3).Draw(t, "ndocs")
		}
		var docs []FDoc
		for j := 0; j < nd; j++ {
			d := genFDoc(t, c.Format)
			if c.Format == "yaml" {
				// header comments on the first document of a file only: a comment after a `---` belongs to the
				// document node, the same comment at the top of a file to the leading content (C05's topic)
				if j == 0 && rapid.IntRange(0, 1).Draw(t, "cm") == 0 {
					d.Comment = fmt.Sprintf("header %d.%d", i, j)
				}
				d.Sep = j == 0 && rapid.Bool().Draw(t, "sep")
			}
			docs = append(docs, d)
		}
		c.Files = append(c.Files, docs)
	}
	c.Probe = rapid.SampledFrom([]string{"bytes", "bytes", "bytes", "provenance"}).Draw(t, "probe")
	c.EvalAll = rapid.IntRange(0, 2).Draw(t, "ea") == 0
	c.NoSep = rapid.IntRange(0, 3).Draw(t, "nosep") == 0
	c.Out = rapid.SampledFrom([]string{"json", "xml", "props", "lua", "yaml", "json", "xml"}).Draw(t, "out")
	seqDoc := c.Format == "csv" || c.Format == "tsv"
	k := rapid.SampledFrom(fmtKeys).Draw(t, "ek")
	pool := []string{".", ".", ".[]", "to_entries | .[]", "map(.)", "length", "keys", "." + k, "has(\"" + k + "\")", "." + k + " = \"set\"", "del(." + k + ")", ".new = \"n\"", "to_entries | length"}
	if seqDoc {
		pool = []string{".", ".", ".[]", ".[0] | .[]", "length", ".[0]", ".[0] | keys", ".[0]." + k, ".[0]." + k + " = \"set\"", "del(.[0]." + k + ")", ".[0].new = \"n\""}
	}
	if c.Format == "xml" {
		pool = []string{".", ".", ".root | .[]", ".root | length", ".root | keys", ".root." + k, ".root." + k + " = \"set\"", "del(.root." + k + ")", ".root.new = \"n\""}
	}
	c.Expr = rapid.SampledFrom(pool).Draw(t, "expr")
	if c.Probe == "provenance" {
		// per-node operators only: in eval-all mode `,` lists each operand over all documents in turn. The last three
		// ask a value that replaces the document (its length) where it comes from
		ln := "length"
		if seqDoc {
			ln = "(.[0] | length)"
		}
		if c.Format == "xml" {
			ln = "(.root | length)"
		}
		c.Expr = "di, fi, filename, " + ln + ", (length | di), (length | fi), (length | filename)"
		c.Out = "json"
	}
	return c
}

func fext(format string) string {
	switch format {
	case "props":
		return "properties"
	}
	return format
}

func checkF(c FCase) hx.Verdict {
	dir := filepath.Join(workdir(), "fmt")
	_ = os.MkdirAll(dir, 0o755)
	var names []string
	total := 0
	for i, docs := range c.Files {
		name := fmt.Sprintf("f%d.%s", i, fext(c.Format))
		if err := os.WriteFile(filepath.Join(dir, name), []byte(fileText(c.Format, docs)), 0o644); err != nil {
			return hx.Disc("write")
		}
		names = append(names, name)
		total += len(docs)
	}
	var args []string
	if c.EvalAll {
		args = append(args, "ea")
	}
	args = append(args, "-p="+c.Format, "-o="+c.Out)
	if c.Out == "json" {
		args = append(args, "-I=0")
	}
	if c.NoSep {
		args = append(args, "-N")
	}
	args = append(args, "--expression", c.Expr)
	labels := []string{"in:" + c.Format, "out:" + c.Out, "probe:" + c.Probe, fmt.Sprintf("ea:%v", c.EvalAll)}
	key := fmt.Sprint(c)
	whole := hx.RunBin(dir, append(append([]string{}, args...), names...), nil, nil, runLimit)
	if crashed(whole) {
		return hx.Bad("panic-site:binary", "yq crashed: %v %.300s", args, whole.Stderr)
	}
	if strings.Contains(whole.Stdout, "$yqDocSeparator$") {
		return hx.Bad("", "the decoder's internal marker of a leading document separator is printed: format=%s out=%s expr=%s output %q files=%q", c.Format, c.Out, c.Expr, whole.Stdout, ftexts(c))
	}
	if c.Probe == "provenance" {
		if whole.Exit != 0 {
			return hx.Bad("", "provenance probe failed (%q): format=%s files=%q", whole.Stderr, c.Format, ftexts(c))
		}
		got, err := model.ParseJSONStream(whole.Stdout)
		if err != nil {
			return hx.Bad("", "not JSON: %q", whole.Stdout)
		}
		const per = 7
		if len(got) != per*total {
			return hx.Bad("", "provenance: %d results for %d documents (%d each): %q files=%q", len(got), total, per, whole.Stdout, ftexts(c))
		}
		n := 0
		for fi, docs := range c.Files {
			for di, d := range docs {
				want := []*model.Value{model.NewInt(int64(di)), model.NewInt(int64(fi)), model.NewStr(names[fi]), model.NewInt(int64(len(d.Keys))),
					model.NewInt(int64(di)), model.NewInt(int64(fi)), model.NewStr(names[fi])}
				for j, w := range want {
					g := got[per*n+j] // sequence mode: document after document
					if c.EvalAll {
						g = got[j*total+n] // one evaluation: operand after operand
					}
					if !model.Equal(g, w) {
						return hx.Bad("", "document %d of file %d (%s input, eval-all=%v) reports %s for %s, expected %s: output %q files=%q", di, fi, c.Format, c.EvalAll, g.JSON(), []string{"document_index", "file_index", "filename", "its number of keys", "length | document_index", "length | file_index", "length | filename"}[j], w.JSON(), whole.Stdout, ftexts(c))
					}
				}
				n++
			}
		}
		return hx.OK(true, key, labels...)
	}
	// bytes: every document alone
	var parts []string
	for _, docs := range c.Files {
		for j, d := range docs {
			one := d
			if j > 0 {
				one.Sep = false
			}
			single := "single." + fext(c.Format)
			txt := one.text(c.Format)
			if c.Format == "yaml" && one.Sep {
				txt = "---\n" + txt
			}
			_ = os.WriteFile(filepath.Join(dir, single), []byte(txt), 0o644)
			r := hx.RunBin(dir, append(append([]string{}, args...), single), nil, nil, runLimit)
			if crashed(r) {
				return hx.Bad("panic-site:binary", "yq crashed on %q: %.300s", txt, r.Stderr)
			}
			if r.Exit != 0 {
				if whole.Exit == 0 {
					return hx.Bad("", "the run over all files succeeds but fails on %q alone (%s): expr=%s", txt, r.Stderr, c.Expr)
				}
				return hx.Unspec("expression_fails_on_some_document")
			}
			parts = append(parts, r.Stdout)
		}
	}
	if whole.Exit != 0 {
		return hx.Bad("", "the run over all files fails (%q) though each document alone succeeds: format=%s out=%s expr=%s files=%q", whole.Stderr, c.Format, c.Out, c.Expr, ftexts(c))
	}
	want := strings.Join(parts, "")
	if c.Out == "yaml" && !c.NoSep {
		want = joinYAML(parts)
	}
	if want != whole.Stdout && c.EvalAll {
		// eval-all is one evaluation over all documents: the statement claims separators for the identity only, and
		// the header comments of later files are merged by design
		if hasComment(c) {
			return hx.Unspec("eval_all_header_comments")
		}
		if c.Out == "yaml" && c.Expr != "." && strings.ReplaceAll("\n"+want, "\n---\n", "\n") == strings.ReplaceAll("\n"+whole.Stdout, "\n---\n", "\n") {
			return hx.Unspec("eval_all_separators_of_derived_results")
		}
	}
	if want != whole.Stdout {
		if c.Out == "yaml" && c.Format == "yaml" && hasComment(c) {
			return hx.Unspec("yaml_to_yaml_with_header_comments") // separator placement around comment blocks is C05's topic
		}
		return hx.Bad("", "the run over all files does not print what its documents print one by one: format=%s out=%s eval-all=%v -N=%v expr=%s\nwhole: %q\none by one: %q\nfiles=%q", c.Format, c.Out, c.EvalAll, c.NoSep, c.Expr, whole.Stdout, want, ftexts(c))
	}
	return hx.OK(true, key, labels...)
}

// joinYAML joins the outputs of single-document runs the way one run separates documents
func joinYAML(parts []string) string {
	var b strings.Builder
	for i, p := range parts {
		if i > 0 && !strings.HasPrefix(p, "---\n") {
			b.WriteString("---\n")
		}
		b.WriteString(p)
	}
	return b.String()
}

func hasComment(c FCase) bool {
	for _, docs := range c.Files {
		for _, d := range docs {
			if d.Comment != "" || d.Sep {
				return true
			}
		}
	}
	return false
}

func (d FDoc) scalars(format string) int {
	n := 0
	for _, k := range d.Keys {
		v := d.Vals[k]
		switch {
		case v.M != nil:
			n += len(v.M)
		case v.L != nil:
			n += len(v.L)
		default:
			n++
		}
	}
	return n
}

func ftexts(c FCase) []string {
	var out []string
	for _, docs := range c.Files {
		out = append(out, fileText(c.Format, docs))
	}
	return out
}
