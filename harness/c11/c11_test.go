package c11

import (
	"fmt"
	"github.com/mikefarah/yq/v4/pkg/yqlib"
	"os"
	"path/filepath"
	"strconv"
	"strings"
	"testing"
	"time"

	"pgregory.net/rapid"
	"verif/gen"
	"verif/hx"
)

const rule = "cases = (expression, input bytes, input format, output format, eval|eval-all) from three generators: " +
	"full-vocabulary grammar expressions with 0-3 token mutations over loose YAML; loosely well-formed text of each input format with 0-3 byte mutations; arbitrary strings. " +
	"oracle: no recovered panic, no watchdog hit (20 s, re-confirmed at 120 s). non-trivial = the expression parsed (got past lexer and parser) or the decoder yielded a result or failed after byte 16; distinct by (expr, input, formats)"

func TestMain(m *testing.M) {
	hx.TraceCurrent = true
	hx.Main(m, "C11", rule,
		"repeat counts and indent parameters in generated expressions are capped (resource exhaustion is not the crash class the property names)",
		"load*/env operators are generated with literal arguments only; they fail with an error on missing files",
		"in-process recover() sees the same panics the binary would turn into exit 2; a sample is re-run through the binary")
}

var inFormats = []string{"yaml", "json", "xml", "props", "csv", "tsv", "toml", "lua", "base64", "uri"}
var outFormats = []string{"yaml", "json", "props", "csv", "tsv", "xml", "base64", "uri", "toml", "shell", "lua"}

// Case is one evaluation.
type Case struct {
	Expr    string `json:"expr"`
	Input   string `json:"input"`
	In      string `json:"in"`
	Out     string `json:"out"`
	EvalAll bool   `json:"eval_all,omitempty"`
	NullIn  bool   `json:"null_in,omitempty"`
	NulSep  bool   `json:"nul_sep,omitempty"`
	Gen     string `json:"gen"`
	// format and printer flags, each "name" or "name=value" as on the command line (see prefPool)
	Prefs []string `json:"prefs,omitempty"`
}

// prefPool: the flags cmd/root.go binds to preferences; in-process they are set the way cobra sets them
var prefPool = []string{"lua-globals", "lua-unquoted", "lua-prefix=x = ", "lua-suffix=", "lua-prefix=", "xml-strict-mode", "xml-keep-namespace=false", "xml-raw-token=false",
	"xml-skip-proc-inst", "xml-skip-directives", "xml-attribute-prefix=", "xml-attribute-prefix=a", "xml-content-name=", "xml-content-name=a", "xml-proc-inst-prefix=", "xml-directive-name=",
	"csv-auto-parse=false", "csv-separator=;", "csv-separator=\"", "tsv-auto-parse=false", "properties-separator=", "properties-separator=:", "properties-array-brackets",
	"string-interpolation=false", "header-preprocess=false", "no-doc", "indent=0", "indent=1", "indent=9", "unwrapScalar=false", "unwrapScalar=true", "colors"}

func genPrefs(t *rapid.T) []string {
	if rapid.IntRange(0, 2).Draw(t, "hasprefs") != 0 {
		return nil
	}
	return rapid.SliceOfNDistinct(rapid.SampledFrom(prefPool), 1, 3, func(s string) string { return strings.SplitN(s, "=", 2)[0] }).Draw(t, "prefs")
}

func (c Case) opts() hx.Opts {
	o := hx.Opts{In: c.In, Out: c.Out, EvalAll: c.EvalAll, NullIn: c.NullIn, NulSep: c.NulSep}
	var tweaks []func()
	for _, p := range c.Prefs {
		name, val, has := strings.Cut(p, "=")
		on := !has || val == "true"
		switch name {
		case "no-doc":
			o.NoDocSep = true
		case "indent":
			n, _ := strconv.Atoi(val)
			o.Indent, o.IndentSet = n, true
		case "unwrapScalar":
			b := on
			o.Unwrap = &b
		case "colors":
			tweaks = append(tweaks, func() {
				yqlib.ConfiguredYamlPreferences.ColorsEnabled = true
				yqlib.ConfiguredJSONPreferences.ColorsEnabled = true
			})
		case "lua-globals":
			tweaks = append(tweaks, func() { yqlib.ConfiguredLuaPreferences.Globals = on })
		case "lua-unquoted":
			tweaks = append(tweaks, func() { yqlib.ConfiguredLuaPreferences.UnquotedKeys = on })
		case "lua-prefix":
			tweaks = append(tweaks, func() { yqlib.ConfiguredLuaPreferences.DocPrefix = val })
		case "lua-suffix":
			tweaks = append(tweaks, func() { yqlib.ConfiguredLuaPreferences.DocSuffix = val })
		case "xml-strict-mode":
			tweaks = append(tweaks, func() { yqlib.ConfiguredXMLPreferences.StrictMode = on })
		case "xml-keep-namespace":
			tweaks = append(tweaks, func() { yqlib.ConfiguredXMLPreferences.KeepNamespace = on })
		case "xml-raw-token":
			tweaks = append(tweaks, func() { yqlib.ConfiguredXMLPreferences.UseRawToken = on })
		case "xml-skip-proc-inst":
			tweaks = append(tweaks, func() { yqlib.ConfiguredXMLPreferences.SkipProcInst = on })
		case "xml-skip-directives":
			tweaks = append(tweaks, func() { yqlib.ConfiguredXMLPreferences.SkipDirectives = on })
		case "xml-attribute-prefix":
			tweaks = append(tweaks, func() { yqlib.ConfiguredXMLPreferences.AttributePrefix = val })
		case "xml-content-name":
			tweaks = append(tweaks, func() { yqlib.ConfiguredXMLPreferences.ContentName = val })
		case "xml-proc-inst-prefix":
			tweaks = append(tweaks, func() { yqlib.ConfiguredXMLPreferences.ProcInstPrefix = val })
		case "xml-directive-name":
			tweaks = append(tweaks, func() { yqlib.ConfiguredXMLPreferences.DirectiveName = val })
		case "csv-auto-parse":
			tweaks = append(tweaks, func() { yqlib.ConfiguredCsvPreferences.AutoParse = on })
		case "csv-separator":
			tweaks = append(tweaks, func() { yqlib.ConfiguredCsvPreferences.Separator = []rune(val)[0] })
		case "tsv-auto-parse":
			tweaks = append(tweaks, func() { yqlib.ConfiguredTsvPreferences.AutoParse = on })
		case "properties-separator":
			tweaks = append(tweaks, func() { yqlib.ConfiguredPropertiesPreferences.KeyValueSeparator = val })
		case "properties-array-brackets":
			tweaks = append(tweaks, func() { yqlib.ConfiguredPropertiesPreferences.UseArrayBrackets = on })
		case "string-interpolation":
			tweaks = append(tweaks, func() { yqlib.StringInterpolationEnabled = on })
		case "header-preprocess":
			tweaks = append(tweaks, func() { yqlib.ConfiguredYamlPreferences.LeadingContentPreProcessing = on })
		}
	}
	if len(tweaks) > 0 {
		o.Tweak = func() {
			for _, f := range tweaks {
				f()
			}
		}
	}
	return o
}

func check(c Case) hx.Verdict {
	if (c.In == "yaml" || c.In == "") && !c.NullIn && strings.Contains(c.Input, "*") && hx.YAMLCyclic(c.Input) {
		// a self-referential alias is rejected by the decoder since fix 9bdc188; when that is lost the recursion
		// is without bound, which no recover() can catch: judge it in a separate, memory-limited process
		return checkBinLimited(c)
	}
	o := hx.Run(c.Expr, c.Input, c.opts())
	if o.Timeout {
		// confirm with a much longer limit before calling it a hang
		old := hx.DefaultLimit
		hx.DefaultLimit = 120 * time.Second
		o = hx.Run(c.Expr, c.Input, c.opts())
		hx.DefaultLimit = old
		if o.Timeout {
			v := hx.Bad("hang", "no result after 120 s: expr=%q in=%s out=%s input=%q", c.Expr, c.In, c.Out, c.Input)
			v.NoShrink = true
			return v
		}
		return hx.Unspec("slow")
	}
	if o.Crashed() {
		return hx.Bad("panic-site:"+o.PanicSite, "panic %q at %s: expr=%q in=%s out=%s input=%q", o.Panic, o.PanicSite, c.Expr, c.In, c.Out, c.Input)
	}
	labels := []string{"gen:" + c.Gen, "in:" + c.In, "out:" + c.Out}
	nontrivial := false
	switch {
	case o.Err == "":
		labels = append(labels, "outcome:result")
		nontrivial = true
	case strings.HasPrefix(o.Err, "parse: "):
		labels = append(labels, "outcome:parse_error")
	case strings.HasPrefix(o.Err, "bad file"):
		labels = append(labels, "outcome:decode_error")
		nontrivial = len(c.Input) > 16
	default:
		labels = append(labels, "outcome:eval_or_encode_error")
		nontrivial = true
	}
	return hx.OK(nontrivial, c.Expr+"\x00"+c.Input+"\x00"+c.In+c.Out+strings.Join(c.Prefs, " "), labels...)
}

func genExprCase(t *rapid.T) Case {
	e := gen.Soup(t, rapid.IntRange(0, 4).Draw(t, "depth"))
	if m := rapid.IntRange(0, 9).Draw(t, "nmut"); m >= 7 {
		e = gen.Mutate(t, e, m-6)
	}
	c := Case{Expr: e, In: "yaml", Out: "yaml", Gen: "grammar"}
	switch rapid.IntRange(0, 9).Draw(t, "ink") {
	case 0:
		c.NullIn = true
	case 1, 2:
		c.In = "json"
		c.Input = gen.LooseText(t, "json")
	default:
		c.Input = gen.LooseText(t, "yaml")
	}
	if rapid.IntRange(0, 2).Draw(t, "outk") == 0 {
		c.Out = rapid.SampledFrom(outFormats).Draw(t, "out")
	}
	c.EvalAll = rapid.IntRange(0, 4).Draw(t, "ea") == 0
	c.NulSep = rapid.IntRange(0, 7).Draw(t, "nul") == 0
	c.Prefs = genPrefs(t)
	c.Expr, c.Input = gen.BoundCase(c.Expr, gen.BoundInput(c.In, c.Input))
	return c
}

var smallExprs = []string{".", "..", "...", ".[]", ".a", ".[0]", "sort", "sort_keys(..)", "to_entries", "keys", "length", ".. style=\"flow\"", "explode(.)", "[..]", "{\"a\": .}", ". as $x | $x", "map(.)", ".[] |= .", "del(.[0])", ". * .", ". + .", "[.[] | key]", "with_entries(.)", "(.. | select(tag == \"!!str\")) |= . + \"x\"", "... comments=\"\"", "path", "to_yaml", "to_json", "to_xml", "to_props", "@csv", "flatten", "unique", "group_by(.)", "reverse", "min", "any", "[paths]", "eval(.a)", "eval(.[])", ".. |= eval(.)", ". tag=\"!!map\"", ". tag=\"!!seq\"", ".. tag=\"!!str\"", ".. tag=\"!!map\"", ".[] tag=\"!!int\"", ". - .", ". == .", "unique_by(.)", ". - [.[0]]"}

func genInputCase(t *rapid.T) Case {
	f := rapid.SampledFrom(inFormats).Draw(t, "in")
	txt := gen.LooseText(t, f)
	if m := rapid.IntRange(0, 9).Draw(t, "nmut"); m >= 5 {
		txt = gen.Mutate(t, txt, (m-4+1)/2)
	}
	if rapid.IntRange(0, 30).Draw(t, "hostile") == 0 {
		txt = rapid.SampledFrom([]string{"</a>", "</b><!--c-->", "<<: *x", "*x", "&x", "]]", "\x00", "\xef\xbb\xbf", strings.Repeat("[", 3000), strings.Repeat("{\"a\":", 3000), strings.Repeat("<a>", 2000), "--- \n--- \n", "a: &a [*a]", "? ", "\r\n\r\n"}).Draw(t, "hs")
	}
	c := Case{Expr: rapid.SampledFrom(smallExprs).Draw(t, "expr"), Input: txt, In: f, Gen: "input"}
	if rapid.IntRange(0, 24).Draw(t, "selfk") == 0 {
		// data that holds expressions, evaluated by eval: among them the evaluating expression itself
		c.Expr = rapid.SampledFrom([]string{"eval(.a)", "eval(.[])", ".[] |= eval(.)", "eval(.b) | eval(.a)", ".a |= eval(.)", "eval(eval(.a))"}).Draw(t, "evx")
		// generator bound: next to an expression that evals itself no held expression fans out into
		// several nodes (.., .[]): each level of the recursion would multiply the work, which is a
		// request for exponential output, not a defect
		self := rapid.IntRange(0, 3).Draw(t, "selfref")
		held := func(l string, i int) string {
			if self == i || self == 2 {
				return c.Expr
			}
			if self == 0 || self == 1 {
				return rapid.SampledFrom([]string{".", ".a", ".b", "length", "keys", "to_entries", ". as $x | $x", "[..]", "\"x\"", "eval(.b)", "eval(.a)", ". tag=\"!!map\""}).Draw(t, l)
			}
			return rapid.SampledFrom(smallExprs).Draw(t, l)
		}
		c.In = "json"
		c.Input = "{\"a\": " + strconv.Quote(held("ha", 0)) + ", \"b\": " + strconv.Quote(held("hb", 1)) + "}"
		f = "json"
	}
	if rapid.Bool().Draw(t, "same") {
		c.Out = f
		if f == "base64" || f == "uri" {
			c.Out = rapid.SampledFrom(outFormats).Draw(t, "out")
		}
	} else {
		c.Out = rapid.SampledFrom(outFormats).Draw(t, "out")
	}
	c.EvalAll = rapid.IntRange(0, 4).Draw(t, "ea") == 0
	c.NulSep = rapid.IntRange(0, 7).Draw(t, "nul") == 0
	c.Prefs = genPrefs(t)
	c.Input = gen.BoundInput(c.In, c.Input)
	return c
}

func genBytesCase(t *rapid.T) Case {
	c := Case{Gen: "bytes"}
	c.Expr = rapid.OneOf(rapid.StringN(0, 30, 60), rapid.StringOfN(rapid.RuneFrom([]rune(".[]()|,:{}\"$*+-/=<>!;# \nabdelmprstu0123456789\\?@_x")), 0, 40, 80)).Draw(t, "expr")
	c.In = rapid.SampledFrom(inFormats).Draw(t, "in")
	c.Out = rapid.SampledFrom(outFormats).Draw(t, "out")
	c.Input = string(rapid.SliceOfN(rapid.Byte(), 0, 80).Draw(t, "input"))
	if rapid.Bool().Draw(t, "valid_expr") {
		c.Expr = rapid.SampledFrom(smallExprs).Draw(t, "sexpr")
	}
	c.Expr, c.Input = gen.BoundCase(c.Expr, gen.BoundInput(c.In, c.Input))
	return c
}

// BinCase replays a sample through the real binary: a panic there is exit 2 with a goroutine dump.
type BinCase struct {
	C     Case `json:"c"`
	Limit bool `json:"limit,omitempty"`
}

func checkBinLimited(c Case) hx.Verdict {
	v := checkBin(BinCase{C: c, Limit: true})
	if v.Status == hx.Violates {
		v.Sig = "input-shape:cyclic-alias"
	}
	return v.WithLabels("cyclic_alias_input")
}

func checkBin(b BinCase) hx.Verdict {
	c := b.C
	dir := filepath.Join(hx.WorkDir(), "bin")
	_ = os.MkdirAll(dir, 0o755)
	args := []string{}
	if c.EvalAll {
		args = append(args, "ea")
	}
	args = append(args, "-p="+c.In, "-o="+c.Out)
	if c.NulSep {
		args = append(args, "-0")
	}
	for _, p := range c.Prefs {
		args = append(args, "--"+p)
	}
	var stdin []byte
	if c.NullIn {
		args = append(args, "-n", "--expression", c.Expr)
	} else {
		args = append(args, "--expression", c.Expr, "-")
		stdin = []byte(c.Input)
	}
	if strings.ContainsRune(c.Expr, 0) {
		return hx.Disc("nul_in_argv")
	}
	var r hx.BinResult
	if b.Limit {
		if hx.YqPath() == "" {
			return hx.Unspec("no_binary")
		}
		r = hx.RunCmd(dir, "/bin/sh", append([]string{"-c", `ulimit -v 3000000; exec "$0" "$@"`, hx.YqPath()}, args...), stdin, nil, 120*time.Second)
		if r.Timeout {
			v := hx.Bad("hang", "no result after 120 s (binary): args=%q stdin=%q", args, c.Input)
			v.NoShrink = true
			return v
		}
	} else {
		r = hx.RunBin(dir, args, stdin, nil, 60*time.Second)
	}
	if r.Timeout {
		return hx.Unspec("slow_binary")
	}
	if b.Limit && hx.YAMLCyclic(c.Input) && (r.Exit == 2 || r.Signal != "") {
		// whatever way the memory-limited process dies (stack overflow, out of memory,
		// thread creation failing under the limit) it is the unbounded recursion
		return hx.Bad("input-shape:cyclic-alias", "binary died on a cyclic alias (exit %d %s): args=%q stdin=%q stderr=%.300s", r.Exit, r.Signal, args, c.Input, r.Stderr)
	}
	if strings.Contains(r.Stderr, "fatal error:") {
		sig := "fatal"
		return hx.Bad(sig, "binary died with a fatal error (exit %d): args=%q stdin=%q stderr=%.300s", r.Exit, args, c.Input, r.Stderr)
	}
	if r.Exit == 2 && (strings.Contains(r.Stderr, "goroutine ") || strings.Contains(r.Stderr, "panic:")) || r.Signal != "" {
		site := "binary"
		// innermost yq frame
		for _, l := range strings.Split(r.Stderr, "\n") {
			if strings.HasPrefix(l, "github.com/mikefarah/yq/v4/") {
				site = strings.TrimPrefix(l, "github.com/mikefarah/yq/v4/")
				if i := strings.LastIndex(site, "("); i > 0 {
					site = site[:i]
				}
				break
			}
		}
		cls := "panic"
		for _, k := range []string{"index out of range", "slice bounds", "nil pointer", "interface conversion", "nil map"} {
			if strings.Contains(r.Stderr, k) {
				cls = k
				break
			}
		}
		return hx.Bad("panic-site:"+site+": "+cls, "binary crashed (exit %d %s): args=%q stdin=%q stderr=%.600s", r.Exit, r.Signal, args, c.Input, r.Stderr)
	}
	return hx.OK(true, fmt.Sprint(args, c.Input), "binary", fmt.Sprintf("exit:%d", r.Exit))
}

func TestProp(t *testing.T) {
	subs := []hx.Sub{
		hx.NewSub("grammar", 14000, 150000, genExprCase, check),
		hx.NewSub("input", 10000, 100000, genInputCase, check),
		hx.NewSub("bytes", 4000, 40000, genBytesCase, check),
	}
	if hx.YqPath() != "" {
		subs = append(subs, hx.NewSub("binary", 250, 1500, func(t *rapid.T) BinCase {
			switch rapid.IntRange(0, 2).Draw(t, "g") {
			case 0:
				return BinCase{C: genExprCase(t)}
			case 1:
				return BinCase{C: genInputCase(t)}
			}
			return BinCase{C: genBytesCase(t)}
		}, checkBin))
	}
	hx.RunProperty(t, subs...)
}
