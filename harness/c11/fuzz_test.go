package c11

import (
	"encoding/json"
	"fmt"
	"os"
	"path/filepath"
	"testing"

	"pgregory.net/rapid"

	"verif/gen"
	"verif/hx"
)

// FuzzEval is the coverage-guided campaign of the thorough tier (the driver runs `go test -fuzz` on it after the
// rapid shards). The bytes are decoded into the same Case the rapid generators produce and judged by the same
// check; a violation is written as a replay file in the usual format before the target fails.
func FuzzEval(f *testing.F) {
	seeds := []struct {
		e, in string
		sel   uint8
	}{
		{".", "a: 1\n", 0}, {".a.b[0]", "a: {b: [1, 2]}\n", 0}, {"sort_by(.a) | .[0]", "[{\"a\": 2}, {\"a\": 1}]", 1},
		{"to_entries | from_entries", "<a x=\"1\"><b>t</b><b/></a>", 2}, {".. |= .", "a.b = 1\na.c.0 = x\n", 3},
		{".[] | select(.h0 == \"1\")", "h0,h1\n1,\"a\nb\"\n", 4}, {"keys", "[t]\na = 1\n[[u]]\nb = [1, 2]\n", 6},
		{".a", "return {a = {1, 2}, [\"b c\"] = [[x]]}", 7}, {"@base64d", "aGVsbG8=", 8}, {".", "a%20b", 9},
		{"explode(.) | .. style=\"flow\"", "a: &x {k: v}\nb: *x\nc: {<<: *x}\n", 0}, {".[-5:]", "[1, 2]", 1},
		{"{\"a\":1, \"x\"}", "", 0}, {". alias |= \"x\" | .[-1]", "- 1\n", 0}, {"[0x1F, 1.5, .inf] | sort", "", 0},
		{".a as $x | reduce .b[] as $i ($x; . + $i)", "a: 1\nb: [1, 2]\n", 0}, {"with_entries(.value |= .. )", "a: {b: [1]}\n", 0},
		{"\"\\(.a) and \\(.b | length)\"", "a: 1\nb: [1]\n", 0}, {"load(\"/nonexistent\")", "a: 1", 0}, {"splitDoc | document_index", "a: 1\n---\nb: 2\n", 0},
	}
	for _, s := range seeds {
		f.Add(s.e, []byte(s.in), s.sel, uint8(0))
		f.Add(s.e, []byte(s.in), s.sel+16*3, uint8(1))
	}
	f.Fuzz(func(t *testing.T, expr string, input []byte, sel uint8, flags uint8) {
		c := Case{Expr: expr, Input: string(input), In: inFormats[int(sel%16)%len(inFormats)], Out: outFormats[int(sel/16)%len(outFormats)],
			EvalAll: flags&1 != 0, NullIn: flags&6 == 6, NulSep: flags&24 == 24, Gen: "fuzz"}
		if len(c.Expr) > 200 || len(c.Input) > 4000 {
			return
		}
		c.Expr, c.Input = gen.BoundCase(c.Expr, gen.BoundInput(c.In, c.Input))
		v := check(c)
		if v.Status == hx.Violates && !hx.IsKnown(v.Sig) {
			dir := filepath.Join(hx.VerifDir, "replays", "C11")
			_ = os.MkdirAll(dir, 0o755)
			p := filepath.Join(dir, "fuzz-"+hx.ShortHash(c.Expr+"\x00"+c.Input+c.In+c.Out)+".json")
			b, _ := json.MarshalIndent(map[string]interface{}{"property": "C11", "sub": "bytes", "case": c, "msg": v.Msg, "sig": v.Sig}, "", " ")
			_ = os.WriteFile(p, b, 0o644)
			t.Fatalf("VIOLATES C11/fuzz: %s\nreplay=%s", v.Msg, p)
		}
	})
}

var _ = fmt.Sprint

func failFuzz(fatal func(format string, args ...any), c Case, v hx.Verdict) {
	dir := filepath.Join(hx.VerifDir, "replays", "C11")
	_ = os.MkdirAll(dir, 0o755)
	p := filepath.Join(dir, "fuzz-"+hx.ShortHash(c.Expr+"\x00"+c.Input+c.In+c.Out)+".json")
	b, _ := json.MarshalIndent(map[string]interface{}{"property": "C11", "sub": "bytes", "case": c, "msg": v.Msg, "sig": v.Sig}, "", " ")
	_ = os.WriteFile(p, b, 0o644)
	fatal("VIOLATES C11/fuzz: %s\nreplay=%s", v.Msg, p)
}

// FuzzGrammar lets the coverage-guided fuzzer drive the decisions of the grammar generators (rapid.MakeFuzz turns
// the fuzzer's bytes into the generators' random source), so that coverage feedback searches the space of
// well-formed expressions and loosely well-formed inputs instead of raw bytes.
func FuzzGrammar(f *testing.F) {
	f.Fuzz(rapid.MakeFuzz(func(t *rapid.T) {
		var c Case
		if rapid.Bool().Draw(t, "which") {
			c = genExprCase(t)
		} else {
			c = genInputCase(t)
		}
		if (c.In == "yaml" || c.In == "") && !c.NullIn && hx.YAMLCyclic(c.Input) {
			return
		}
		v := check(c)
		if v.Status == hx.Violates && !hx.IsKnown(v.Sig) {
			failFuzz(t.Fatalf, c, v)
		}
	}))
}
