package c12

import (
	"bytes"
	"fmt"
	"os"
	"os/exec"
	"path/filepath"
	"strings"
	"syscall"
	"testing"
	"time"

	"pgregory.net/rapid"
	"verif/hx"
)

const rule = "case = (expression: valid edit / no-op / parse error / runtime error on a later document / encode error / -e without a match / zero results; file content: 1-3 documents, malformed tail, front matter + text, empty, no trailing newline; eval | eval-all; --front-matter=process; -o; file mode 0644/0600/0755/0444 and modes with bits the usual umask clears (0664/0666/0775/0606); temp directory on the same or on another file system). " +
	"For every case the fault space is ENUMERATED: a trace run lists the protocol points the run passes (hooks, build tag verif); then one run per point and mode (error return, SIGKILL), plus real faults: write limit (ulimit -f) at three offsets, missing and unwritable TMPDIR, read-only target directory, SIGKILL after a random delay. " +
	"oracle: old = bytes before, new = stdout of the same command without -i. exit 0 => file == new and mode bits unchanged; exit != 0 => file == old; killed => file == old or file == new. " +
	"non-trivial = a run in which the injected fault was reached (trace) or the command genuinely failed; distinct by (case, fault)"

func TestMain(m *testing.M) {
	hx.Main(m, "C12", rule,
		"faults are injected at step boundaries (hook points) and by real OS limits, not at every instruction; a failing close(2) cannot be produced (its result is ignored by the code)",
		"an injected error return at a point after the target was already replaced is not a fault the real code can have there: those points are exercised with kill only",
		"ownership (chown) is not judged: the sandbox runs as one uid; left-over temp files are counted, not judged")
}

type Case struct {
	Expr    string   `json:"expr"`
	Content string   `json:"content"`
	Flags   []string `json:"flags"`
	Mode    uint32   `json:"mode"`
	OtherFS bool     `json:"other_fs"`
	Name    string   `json:"name"`
	Symlink bool     `json:"symlink,omitempty"` // the path given is a symbolic link to the file
	Tty     bool     `json:"tty,omitempty"`     // one more run with a terminal as stdin / stdout / stderr
}

var exprs = []string{`.a = 1`, `.a.b += 1`, `.`, `del(.a)`, `.x = "new value"`, `.list += ["item"]`, `.. style=""`, `.a = `, `.a.b.c = 1`, `.a |= (. + 1)`, `select(.nope)`, `.nope`, `select(.a == 1)`, `.a = {"k": [1,2,3]}`, `... comments=""`, `to_entries`, `.[0] = "z"`, `.a * 2`, `error("boom")`, `(.a, .b) = 5`, `.big = ("x" * 5000)`}

var contents = []string{
	"a: 1\nb: two\n", "a: {b: 1}\nlist: [1, 2]\n", "# header\na: 1\n", "a: 1\n---\na: 2\n", "a: 1\n---\na: scalar\n---\nb: 3\n", "a: x\n---\na: [1,2\n",
	"", "a: 1", "- 1\n- 2\n", "a: [\n", "---\na: 1\nb: 2\n---\nText after the front matter\nwith --- dashes\n---\nand no trailing newline",
	"---\ntitle: x\n---\n", "a: &x 1\nb: *x\n", "a: \"" + strings.Repeat("long ", 3000) + "\"\n",
}

func genCase(t *rapid.T) Case {
	c := Case{Expr: rapid.SampledFrom(exprs).Draw(t, "expr"), Content: rapid.SampledFrom(contents).Draw(t, "content"),
		Mode: rapid.SampledFrom([]uint32{0o644, 0o600, 0o755, 0o444, 0o664, 0o666, 0o775, 0o606}).Draw(t, "mode"), OtherFS: rapid.Bool().Draw(t, "otherfs"), Name: "t.yaml"}
	if rapid.IntRange(0, 4).Draw(t, "ea") == 0 {
		c.Flags = append(c.Flags, "ea")
	}
	c.Symlink = rapid.IntRange(0, 4).Draw(t, "symlink") == 0
	c.Tty = rapid.IntRange(0, 3).Draw(t, "tty") == 0
	switch rapid.IntRange(0, 9).Draw(t, "flag") {
	case 0:
		c.Flags = append(c.Flags, "-e")
		if rapid.Bool().Draw(t, "enull") {
			// with -e the run fails when nothing, null or false comes out: the file then stays as it was
			c.Expr = rapid.SampledFrom([]string{`.nope`, `select(.nope)`, `.a == "never"`, `.nope.deeper`, `null`, `false`}).Draw(t, "eexpr")
		}
	case 1, 6:
		c.Flags = append(c.Flags, "--front-matter=process")
		c.Name = "post.md"
		if rapid.IntRange(0, 4).Draw(t, "fmcontent") > 0 {
			c.Content = rapid.SampledFrom([]string{contents[10], contents[11], "---\na: 1\n---\nbody text\n", "a: 1\n---\ntext without a leading separator\n\nmore", "---\ntitle: t\n---\n# Heading\n\n--- not a separator\n"}).Draw(t, "fmc")
		}
		if rapid.IntRange(0, 2).Draw(t, "fmexpr") == 0 {
			c.Expr = rapid.SampledFrom([]string{`select(.nope)`, `.a = 2`, `del(.a)`, `.nope`, `.`}).Draw(t, "fme")
		}
	case 2:
		c.Flags = append(c.Flags, "-o=json")
	case 3:
		c.Flags = append(c.Flags, "-o=xml")
	case 4:
		c.Flags = append(c.Flags, "-P")
	case 5:
		c.Flags = append(c.Flags, "-o=props")
	}
	return c
}

var points = []string{"inplace.create.before_temp", "inplace.create.after_temp", "inplace.create.after_chmod", "inplace.create.after_chown",
	"inplace.finish.entry", "inplace.finish.after_close", "inplace.rename.before", "inplace.rename.fallback_entry",
	"inplace.copy.after_open_src", "inplace.copy.after_create_dst", "inplace.copy.after_copy", "inplace.rename.after_copy", "inplace.rename.done"}

// afterReplace: an error return injected here comes after the target was replaced; only kill is meaningful.
var afterReplace = map[string]bool{"inplace.rename.after_copy": true, "inplace.rename.done": true, "inplace.copy.after_copy": true}

type env struct {
	dir, target, tmp string
}

var otherFSRoot = ""

func setup(c Case) (*env, error) {
	base := filepath.Join(hx.WorkDir(), "c12")
	_ = os.Chmod(filepath.Join(base, "d"), 0o755)
	_ = os.RemoveAll(base)
	e := &env{dir: filepath.Join(base, "d")}
	if err := os.MkdirAll(e.dir, 0o755); err != nil {
		return nil, err
	}
	e.target = filepath.Join(e.dir, c.Name)
	e.tmp = filepath.Join(base, "tmp")
	if c.OtherFS {
		e.tmp = filepath.Join(otherFSRoot, fmt.Sprintf("t-%d", os.Getpid()))
	}
	_ = os.RemoveAll(e.tmp)
	if err := os.MkdirAll(e.tmp, 0o755); err != nil {
		return nil, err
	}
	return e, nil
}

func (e *env) reset(c Case) error {
	_ = os.Chmod(e.dir, 0o755)
	_ = os.Chmod(e.target, 0o644)
	_ = os.Remove(e.target)
	file := e.target
	if c.Symlink {
		// the file lives under another name, the path given to yq is a link to it
		file = filepath.Join(e.dir, "real-"+c.Name)
		_ = os.Chmod(file, 0o644)
		_ = os.Remove(file)
	}
	if err := os.WriteFile(file, []byte(c.Content), os.FileMode(c.Mode)); err != nil {
		return err
	}
	if err := os.Chmod(file, os.FileMode(c.Mode)); err != nil {
		return err
	}
	if c.Symlink {
		if err := os.Symlink(filepath.Base(file), e.target); err != nil {
			return err
		}
	}
	ents, _ := os.ReadDir(e.tmp)
	for _, x := range ents {
		_ = os.Remove(filepath.Join(e.tmp, x.Name()))
	}
	return nil
}

type result struct {
	exit     int
	killed   bool
	stdout   string
	stderr   string
	leftover int
}

func (e *env) run(c Case, inplace bool, extraEnv []string, shellPrefix string, killAfter time.Duration) result {
	args := []string{}
	for _, f := range c.Flags {
		if f == "ea" {
			args = append([]string{"ea"}, args...)
		} else {
			args = append(args, f)
		}
	}
	if inplace {
		args = append(args, "-i")
	}
	args = append(args, "--expression", c.Expr, e.target)
	var cmd *exec.Cmd
	if shellPrefix == "PTY" {
		// a pseudo terminal as stdin, stdout and stderr of yq (what an interactive shell gives it)
		cmd = exec.Command("/usr/bin/python3", append([]string{"-c", "import pty, sys, os\nst = pty.spawn(sys.argv[1:], lambda fd: os.read(fd, 65536))\nsys.exit(os.waitstatus_to_exitcode(st))", hx.YqPath()}, args...)...)
	} else if shellPrefix != "" {
		cmd = exec.Command("/bin/sh", append([]string{"-c", shellPrefix + ` exec "$0" "$@"`, hx.YqPath()}, args...)...)
	} else {
		cmd = exec.Command(hx.YqPath(), args...)
	}
	cmd.Dir = e.dir
	cmd.Env = append([]string{"PATH=/usr/bin:/bin", "HOME=/nonexistent", "NO_COLOR=1", "TMPDIR=" + e.tmp}, extraEnv...)
	if shellPrefix == "PTY" {
		// an interactive shell: a terminal type, and nothing that switches colours off
		cmd.Env = append([]string{"PATH=/usr/bin:/bin", "HOME=/nonexistent", "TERM=xterm-256color", "TMPDIR=" + e.tmp}, extraEnv...)
	}
	var so, se bytes.Buffer
	cmd.Stdout, cmd.Stderr = &so, &se
	cmd.Stdin = nil
	var r result
	if err := cmd.Start(); err != nil {
		r.exit = -2
		r.stderr = err.Error()
		return r
	}
	done := make(chan error, 1)
	go func() { done <- cmd.Wait() }()
	var err error
	if killAfter > 0 {
		select {
		case err = <-done:
		case <-time.After(killAfter):
			_ = cmd.Process.Kill()
			err = <-done
		}
	} else {
		select {
		case err = <-done:
		case <-time.After(60 * time.Second):
			_ = cmd.Process.Kill()
			err = <-done
			r.stderr = "TIMEOUT"
		}
	}
	r.stdout, r.stderr = so.String(), r.stderr+se.String()
	if err != nil {
		if ee, ok := err.(*exec.ExitError); ok {
			if ws, ok := ee.Sys().(syscall.WaitStatus); ok && ws.Signaled() {
				r.killed = true
				r.exit = -1
			} else {
				r.exit = ee.ExitCode()
			}
		} else {
			r.exit = -2
		}
	}
	ents, _ := os.ReadDir(e.tmp)
	r.leftover = len(ents)
	return r
}

type fault struct {
	name   string
	env    []string
	prefix string
	kill   time.Duration
	pre    func(e *env)
	post   func(e *env)
	point  string
}

func check(c Case) hx.Verdict {
	if hx.YqPath() == "" {
		return hx.Disc("no_binary")
	}
	if c.OtherFS && otherFSRoot == "" {
		return hx.Disc("no_other_fs")
	}
	e, err := setup(c)
	if err != nil {
		return hx.Disc("setup:" + err.Error())
	}
	defer func() {
		_ = os.Chmod(e.dir, 0o755)
		if c.OtherFS {
			_ = os.RemoveAll(e.tmp)
		}
	}()
	old := c.Content
	if err := e.reset(c); err != nil {
		return hx.Disc("reset")
	}
	// reference: the same command without -i
	refRun := e.run(c, false, nil, "", 0)
	if strings.Contains(refRun.stderr, "TIMEOUT") {
		return hx.Unspec("slow")
	}
	neu := refRun.stdout
	// trace run: which points does this run pass?
	_ = e.reset(c)
	trace := filepath.Join(filepath.Dir(e.dir), "trace.txt")
	_ = os.Remove(trace)
	base := e.run(c, true, []string{"YQ_VERIF_TRACE=" + trace}, "", 0)
	tb, _ := os.ReadFile(trace)
	var reached []string
	for _, l := range strings.Split(string(tb), "\n") {
		if l != "" {
			reached = append(reached, l)
		}
	}
	caseKey := fmt.Sprint(c.Expr, c.Content, c.Flags, c.Mode, c.OtherFS)
	judge := func(f string, r result, faultReached bool) *hx.Verdict {
		got, rerr := os.ReadFile(e.target)
		if rerr != nil {
			v := hx.Bad("", "the target file is gone after %s: %v (case %+v)", f, rerr, short(c))
			return &v
		}
		info, _ := os.Stat(e.target)
		mode := uint32(info.Mode().Perm())
		isOld, isNew := string(got) == old, string(got) == neu
		switch {
		case r.killed:
			if !isOld && !isNew {
				v := hx.Bad(sigOf(f, c), "killed at %s: the file holds neither the old nor the new content (%d bytes; old %d, new %d): %s", f, len(got), len(old), len(neu), short(c))
				return &v
			}
		case r.exit == 0:
			if !isNew {
				v := hx.Bad(sigOf(f, c), "exit 0 after %s but the file does not hold what the command prints without -i: got %q want %q: %s", f, clip(string(got)), clip(neu), short(c))
				return &v
			}
			if suf, ok := frontMatterSuffix(c); ok && !strings.HasSuffix(string(got), suf) {
				v := hx.Bad("input-shape:front-matter-no-result", "exit 0 after %s with --front-matter=process but the text after the front matter is not preserved: file %q, text %q: %s", f, clip(string(got)), clip(suf), short(c))
				return &v
			}
			if mode != c.Mode {
				v := hx.Bad(sigOf(f, c), "exit 0 after %s but the permission bits changed %o -> %o: %s", f, c.Mode, mode, short(c))
				return &v
			}
		default:
			if !isOld {
				v := hx.Bad(sigOf(f, c), "exit %d after %s but the file changed: got %q old %q (stderr %q): %s", r.exit, f, clip(string(got)), clip(old), clip(r.stderr), short(c))
				return &v
			}
			if mode != c.Mode {
				v := hx.Bad(sigOf(f, c), "exit %d after %s and the permission bits changed %o -> %o: %s", r.exit, f, c.Mode, mode, short(c))
				return &v
			}
		}
		key := ""
		if faultReached || r.exit != 0 {
			key = caseKey + "\x00" + f
		}
		lab := []string{"fault:" + strings.SplitN(f, "=", 2)[0]}
		if r.leftover > 0 {
			lab = append(lab, "leftover_temp_file")
		}
		hx.Tally("inplace", key, lab...)
		return nil
	}
	// no fault
	if refRun.exit == 0 && base.exit != 0 {
		return hx.Bad("", "the command succeeds without -i but fails with -i (exit %d, %q): %s", base.exit, clip(base.stderr), short(c))
	}
	if refRun.exit != 0 && base.exit == 0 {
		return hx.Bad(sigOf("nofault", c), "the command fails without -i (exit %d, %q) but exits 0 with -i: %s", refRun.exit, clip(refRun.stderr), short(c))
	}
	if v := judge("nofault", base, false); v != nil {
		return *v
	}
	if c.Tty {
		// the same with a terminal on stdin / stdout / stderr: what goes into the file is not what a terminal would be shown
		_ = e.reset(c)
		tr := e.run(c, true, nil, "PTY", 0)
		if tr.exit != base.exit {
			return hx.Bad("", "with a terminal attached -i exits %d, without %d: %s", tr.exit, base.exit, short(c))
		}
		if v := judge("tty", tr, false); v != nil {
			return *v
		}
	}
	// enumerate
	var faults []fault
	for _, p := range reached {
		if !afterReplace[p] {
			faults = append(faults, fault{name: p + "=err", env: []string{"YQ_VERIF_FAULT=" + p + "=err"}, point: p})
		}
		faults = append(faults, fault{name: p + "=kill", env: []string{"YQ_VERIF_FAULT=" + p + "=kill"}, point: p})
	}
	blocks := (len(neu) + 511) / 512
	for _, n := range []int{0, blocks / 2, blocks - 1} {
		if n >= 0 {
			faults = append(faults, fault{name: fmt.Sprintf("ulimit-f=%d", n), prefix: fmt.Sprintf("ulimit -f %d;", n)})
		}
	}
	faults = append(faults,
		fault{name: "tmpdir-missing", pre: func(e *env) { _ = os.RemoveAll(e.tmp); e.tmp += "/missing/deeper" }, post: func(e *env) { e.tmp = strings.TrimSuffix(e.tmp, "/missing/deeper"); _ = os.MkdirAll(e.tmp, 0o755) }},
		fault{name: "tmpdir-is-a-file", pre: func(e *env) { _ = os.RemoveAll(e.tmp); _ = os.WriteFile(e.tmp, []byte("x"), 0o644) }, post: func(e *env) { _ = os.Remove(e.tmp); _ = os.MkdirAll(e.tmp, 0o755) }},
		fault{name: "sigkill-random", kill: time.Duration(500+len(caseKey)%3000) * time.Microsecond},
		fault{name: "sigkill-early", kill: 300 * time.Microsecond},
	)
	for _, f := range faults {
		if err := e.reset(c); err != nil {
			return hx.Disc("reset")
		}
		if f.pre != nil {
			f.pre(e)
		}
		r := e.run(c, true, f.env, f.prefix, f.kill)
		if f.post != nil {
			f.post(e)
		}
		if strings.Contains(r.stderr, "TIMEOUT") {
			return hx.Bad("", "hang with fault %s: %s", f.name, short(c))
		}
		if v := judge(f.name, r, f.point != "" || r.exit != 0 || r.killed); v != nil {
			return *v
		}
	}
	labels := []string{fmt.Sprintf("otherfs:%v", c.OtherFS), fmt.Sprintf("points:%d", len(reached))}
	if refRun.exit != 0 {
		labels = append(labels, "command_fails")
	}
	return hx.OK(true, caseKey, labels...)
}

func sigOf(f string, c Case) string { return "" }

// frontMatterSuffix: the text from the line that closes the front matter on (as the front matter handler splits it).
func frontMatterSuffix(c Case) (string, bool) {
	fm := false
	for _, f := range c.Flags {
		if f == "--front-matter=process" {
			fm = true
		}
	}
	if !fm {
		return "", false
	}
	off := 0
	for i, l := range strings.SplitAfter(c.Content, "\n") {
		if i > 0 && strings.HasPrefix(l, "---") {
			return c.Content[off:], true
		}
		off += len(l)
	}
	return "", true
}

func clip(s string) string {
	if len(s) > 160 {
		return s[:160] + "..."
	}
	return s
}

func short(c Case) string {
	return fmt.Sprintf("expr=%q flags=%v mode=%o otherfs=%v content=%q", c.Expr, c.Flags, c.Mode, c.OtherFS, clip(c.Content))
}

func TestProp(t *testing.T) {
	// another file system for the cross-device fallback
	var a, b syscall.Stat_t
	if syscall.Stat("/dev/shm", &a) == nil && syscall.Stat(hx.WorkDir(), &b) == nil && a.Dev != b.Dev {
		otherFSRoot = filepath.Join("/dev/shm", fmt.Sprintf("verif-c12-%d", os.Getpid()))
		_ = os.MkdirAll(otherFSRoot, 0o755)
		defer os.RemoveAll(otherFSRoot)
	} else {
		hx.Note("no second file system available: cross-device cases are skipped")
	}
	hx.Extra("points", points)
	hx.RunProperty(t, hx.NewSub("inplace", 40, 400, genCase, check))
}
