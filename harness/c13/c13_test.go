package c13

import (
	"fmt"
	"os"
	"sort"
	"strings"
	"testing"

	yaml "gopkg.in/yaml.v3"
	"pgregory.net/rapid"
	"verif/gen"
	"verif/hx"
	"verif/model"
)

const rule = "case = (a document in merge mode: anchored scalars / sequences / maps, aliases in value positions, maps with `<<: *a` and `<<: [*a, *b]`, keys that overlap between merge sources and explicit keys placed before and after `<<`, nested merges; a read path of the spec-resolved document). " +
	"oracle: reference resolution of the ground-truth tree by the YAML merge-key rules (alias = its anchored node; explicit keys win regardless of position; earlier entries of a merge list win; nested merges recursive). Three routes must give it: `yq -o=json PATH`, `yq -o=json 'explode(.) | PATH'`, and `yq -o=json .` looked up by the harness; after explode(.) the YAML output has no alias, no merge key, no anchor. Maps that received merged keys are compared without key order. " +
	"non-trivial = a `<<` whose sources overlap with each other or with an explicit key, or an alias to a container that is read through; distinct by (text, path)"

func TestMain(m *testing.M) {
	hx.Main(m, "C13", rule,
		"writing through aliases is not generated; merge values are aliases or lists of aliases",
		"the two open findings are matched by deviant reference models of exactly the wrong behaviour (see known_findings.json); any other wrong answer is a violation")
}

type Case struct {
	Doc  *gen.YDoc `json:"doc"`
	Text string    `json:"text"`
	Path []string  `json:"path"` // key or index steps ("#2" = index 2)
}

type mode int

const (
	spec mode = iota
	explodeDev
	traverseDev
)

func deref(n *gen.YN) *gen.YN {
	for n.K == gen.YAlias {
		n = n.Target
	}
	return n
}

// entries resolves the effective entries of a map under a mode.
func entries(n *gen.YN, m mode) (keys []string, vals []*gen.YN) {
	set := func(k string, v *gen.YN, override bool) {
		for i, kk := range keys {
			if kk == k {
				if override {
					vals[i] = v
				}
				return
			}
		}
		keys = append(keys, k)
		vals = append(vals, v)
	}
	mergeSources := func(v *gen.YN, reverse bool) []*gen.YN {
		if v.K == gen.YSeq {
			src := append([]*gen.YN{}, v.Elem...)
			if reverse {
				for i, j := 0, len(src)-1; i < j; i, j = i+1, j-1 {
					src[i], src[j] = src[j], src[i]
				}
			}
			return src
		}
		return []*gen.YN{v}
	}
	switch m {
	case spec:
		// explicit keys first (they win regardless of position), then merges: earlier sources win
		for i, k := range n.Keys {
			if !k.Merge {
				set(k.S, n.Vals[i], false)
			}
		}
		for i, k := range n.Keys {
			if k.Merge {
				for _, src := range mergeSources(n.Vals[i], false) {
					sk, sv := entries(deref(src), m)
					for j := range sk {
						set(sk[j], sv[j], false)
					}
				}
			}
		}
	case explodeDev:
		// what explode / the JSON route do on this tree: entries in document order, every write overrides;
		// a merge list is applied back to front (so its first entry wins within the list)
		for i, k := range n.Keys {
			if !k.Merge {
				set(k.S, n.Vals[i], true)
				continue
			}
			for _, src := range mergeSources(n.Vals[i], true) {
				sk, sv := entries(deref(src), m)
				for j := range sk {
					set(sk[j], sv[j], true)
				}
			}
		}
	case traverseDev:
		// what path traversal does on this tree: entries in document order, later matches override;
		// a merge list is walked front to back (so its last entry wins)
		for i, k := range n.Keys {
			if !k.Merge {
				set(k.S, n.Vals[i], true)
				continue
			}
			for _, src := range mergeSources(n.Vals[i], false) {
				sk, sv := entries(deref(src), m)
				for j := range sk {
					set(sk[j], sv[j], true)
				}
			}
		}
	}
	return
}

// resolve gives the data value of a subtree under a mode.
func resolve(n *gen.YN, m mode) *model.Value {
	n = deref(n)
	switch n.K {
	case gen.YMap:
		ks, vs := entries(n, m)
		out := model.NewMap()
		for i, k := range ks {
			out.Keys = append(out.Keys, k)
			out.Vals = append(out.Vals, resolve(vs[i], m))
		}
		return out
	case gen.YSeq:
		out := model.NewSeq()
		for _, e := range n.Elem {
			out.Elem = append(out.Elem, resolve(e, m))
		}
		return out
	}
	return n.Data()
}

// walkPath follows a path choosing entries under lookup mode lm; the final subtree is resolved under rm.
func walkPath(root *gen.YN, path []string, lm, rm mode) (*model.Value, bool) {
	n, ok := nodeAtPath(root, path, lm)
	if !ok {
		return nil, false
	}
	return resolve(n, rm), true
}

// nodeAtPath follows a path choosing entries under lookup mode lm.
func nodeAtPath(root *gen.YN, path []string, lm mode) (*gen.YN, bool) {
	n := deref(root)
	for _, st := range path {
		switch n.K {
		case gen.YMap:
			ks, vs := entries(n, lm)
			found := false
			for i, k := range ks {
				if k == st {
					n, found = deref(vs[i]), true
					break
				}
			}
			if !found {
				return nil, false
			}
		case gen.YSeq:
			var idx int
			if _, err := fmt.Sscanf(st, "#%d", &idx); err != nil || idx >= len(n.Elem) {
				return nil, false
			}
			n = deref(n.Elem[idx])
		default:
			return nil, false
		}
	}
	return n, true
}

func allPaths(v *model.Value, p []string, out *[][]string) {
	*out = append(*out, append([]string{}, p...))
	switch v.K {
	case model.Map:
		for i, k := range v.Keys {
			allPaths(v.Vals[i], append(p, k), out)
		}
	case model.Seq:
		for i := range v.Elem {
			allPaths(v.Elem[i], append(p, fmt.Sprintf("#%d", i)), out)
		}
	}
}

func pathExpr(p []string) string {
	if len(p) == 0 {
		return "."
	}
	var b strings.Builder
	for _, st := range p {
		var idx int
		if _, err := fmt.Sscanf(st, "#%d", &idx); err == nil && strings.HasPrefix(st, "#") {
			fmt.Fprintf(&b, ".[%d]", idx)
		} else {
			b.WriteString(".[" + `"` + st + `"` + "]")
		}
	}
	return b.String()
}

func lookupModel(v *model.Value, p []string) (*model.Value, bool) {
	for _, st := range p {
		switch v.K {
		case model.Map:
			x, ok := v.Get(st)
			if !ok {
				return nil, false
			}
			v = x
		case model.Seq:
			var idx int
			if _, err := fmt.Sscanf(st, "#%d", &idx); err != nil || idx >= len(v.Elem) {
				return nil, false
			}
			v = v.Elem[idx]
		default:
			return nil, false
		}
	}
	return v, true
}

func genCase(t *rapid.T) Case {
	d := gen.MergeDoc(t)
	c := Case{Doc: d, Text: gen.Text([]*gen.YDoc{d})}
	var paths [][]string
	allPaths(resolve(d.Root, spec), nil, &paths)
	c.Path = paths[rapid.IntRange(0, len(paths)-1).Draw(t, "path")]
	return c
}

func overlapInfo(root *gen.YN) (overlap, aliasContainer bool) {
	root.Walk(func(n *gen.YN) {
		if n.K == gen.YAlias && deref(n).K != gen.YScalar {
			aliasContainer = true
		}
		if n.K != gen.YMap {
			return
		}
		seen := map[string]int{}
		for i, k := range n.Keys {
			if !k.Merge {
				seen[k.S]++
				continue
			}
			v := n.Vals[i]
			srcs := []*gen.YN{v}
			if v.K == gen.YSeq {
				srcs = v.Elem
			}
			for _, s := range srcs {
				ks, _ := entries(deref(s), spec)
				for _, kk := range ks {
					seen[kk]++
				}
			}
		}
		for _, c := range seen {
			if c > 1 {
				overlap = true
			}
		}
	})
	return
}

func jsonOne(expr, text string) (*model.Value, hx.Outcome) {
	r, o := hx.JSONResults(expr, text, "yaml")
	if !o.OK() {
		return nil, o
	}
	if len(r) != 1 {
		o.Err = fmt.Sprintf("%d results", len(r))
		return nil, o
	}
	v, err := model.ParseJSON(r[0])
	if err != nil {
		o.Err = "not json: " + r[0]
		return nil, o
	}
	return v, o
}

func check(c Case) hx.Verdict {
	gen.Relink([]*gen.YDoc{c.Doc})
	root := c.Doc.Root
	want, ok := walkPath(root, c.Path, spec, spec)
	if !ok {
		return hx.Disc("path_not_in_truth")
	}
	// soundness gate: an independent reader (yaml.v2 applies merge keys itself) reads the text as the spec resolution
	// (yaml.v2 applies merges in document order and lets them override explicit keys written before `<<`,
	// like yq does; the gate only validates the emitter, so either reading of the same structure is accepted)
	if v2, err := hx.ReadYAMLv2(c.Text); err != nil || len(v2) != 1 || !(model.EqualUnordered(v2[0], resolve(root, spec)) || model.EqualUnordered(v2[0], resolve(root, explodeDev))) {
		if os.Getenv("VERIF_DEBUG_UNSOUND") != "" {
			got := "?"
			if len(v2) == 1 {
				got = v2[0].JSON()
			}
			hx.Note("UNSOUND err=%v got=%s want=%s\n%s", err, got, resolve(root, spec).JSON(), c.Text)
		}
		return hx.Disc("generator_unsound")
	}
	q := pathExpr(c.Path)
	overlap, aliasCont := overlapInfo(root)
	labels := []string{}
	if overlap {
		labels = append(labels, "overlap")
	}
	if aliasCont {
		labels = append(labels, "alias_to_container")
	}
	fail := func(o hx.Outcome, what string) *hx.Verdict {
		if o.Crashed() {
			v := hx.Bad("panic-site:"+o.PanicSite, "panic %s (%s) on\n%s", o.Panic, what, c.Text)
			return &v
		}
		if o.Timeout {
			v := hx.Unspec("slow")
			return &v
		}
		return nil
	}
	judge := func(route string, got *model.Value, o hx.Outcome, devLookup, devResolve mode) *hx.Verdict {
		if v := fail(o, route); v != nil {
			return v
		}
		dv, dok := walkPath(root, c.Path, devLookup, devResolve)
		if got == nil {
			sig := ""
			if !dok {
				// the deviant choice of an overlapping key leads somewhere the rest of the path does not exist
				sig = "deviant:merge-later-write-wins"
			}
			v := hx.Bad(sig, "%s failed (%s) reading %s of\n%s", route, o.Err, q, c.Text)
			return &v
		}
		if model.EqualUnordered(got, want) {
			return nil
		}
		sig := ""
		if (dok && model.EqualUnordered(got, dv)) || !dok {
			sig = "deviant:merge-later-write-wins"
		}
		v := hx.Bad(sig, "%s: %s reads %s, the merge-key rules give %s\n%s", route, q, got.JSON(), want.JSON(), c.Text)
		return &v
	}
	// route 1: traverse the un-exploded document
	g1, o1 := jsonOne(q, c.Text)
	if v := judge("route 1 (traverse)", g1, o1, traverseDev, explodeDev); v != nil {
		return *v
	}
	// route 2: explode then read
	g2, o2 := jsonOne("explode(.) | "+q, c.Text)
	if v := judge("route 2 (explode, then read)", g2, o2, explodeDev, explodeDev); v != nil {
		return *v
	}
	// after explode the document is a plain tree: the node read at a path reports that path (an entry a merge key
	// brought in belongs to the map it was merged into, not to the anchored map it came from)
	if g2 != nil {
		wantPath := model.NewSeq()
		for _, st := range c.Path {
			var idx int
			if _, err := fmt.Sscanf(st, "#%d", &idx); err == nil && strings.HasPrefix(st, "#") {
				wantPath.Elem = append(wantPath.Elem, model.NewInt(int64(idx)))
			} else {
				wantPath.Elem = append(wantPath.Elem, model.NewStr(st))
			}
		}
		gp, op := jsonOne("explode(.) | "+q+" | path", c.Text)
		if v := fail(op, "path after explode"); v != nil {
			return *v
		}
		if gp == nil || !model.Equal(gp, wantPath) {
			return hx.Bad("", "`explode(.) | %s | path` is %v, expected %s\n%s", q, js(gp), wantPath.JSON(), c.Text)
		}
	}
	// route 6: the same read in eval-all mode behind a first document that has no alias at all (what is done to the
	// results of one document does not depend on the documents before it)
	{
		// (the plain document is printed first, then what is read from the second)
		o6 := hx.Run("select(di == 0), (select(di == 1) | "+q+")", "plain: 1\n---\n"+c.Text, hx.Opts{Out: "json", IndentSet: true, EvalAll: true})
		var g6 *model.Value
		if o6.OK() {
			if vs, err := model.ParseJSONStream(o6.Out); err == nil && len(vs) == 2 {
				g6 = vs[1]
			} else {
				o6.Err = fmt.Sprintf("%d results", len(vs))
			}
		}
		if !strings.HasPrefix(c.Text, "#") && !strings.HasPrefix(c.Text, "---") {
			if v := judge("route 6 (eval-all, second document)", g6, o6, traverseDev, explodeDev); v != nil {
				return *v
			}
		}
	}
	// route 3: convert to JSON, then look up
	g3, o3 := jsonOne(".", c.Text)
	if v := fail(o3, "route 3"); v != nil {
		return *v
	}
	if g3 == nil {
		return hx.Bad("", "conversion to JSON failed (%s):\n%s", o3.Err, c.Text)
	}
	sub, ok := lookupModel(g3, c.Path)
	if !ok {
		sub = nil
	}
	var o3b hx.Outcome
	if sub == nil {
		o3b.Err = "path missing in the JSON conversion"
	}
	if v := judge("route 3 (JSON, then look up)", sub, o3b, explodeDev, explodeDev); v != nil {
		return *v
	}
	// route 5: the in-expression encoders resolve aliases and merge keys like the -o formats: `q | to_json | from_json`,
	// `q | to_yaml | from_yaml | ...` stays as YAML (aliases kept), so only the formats without aliases are routes
	for _, pair := range []string{"to_json | from_json", "@json | from_json", "to_json(0) | @jsond"} {
		g5, o5 := jsonOne(q+" | "+pair, c.Text)
		if v := judge("route 5 ("+pair+")", g5, o5, explodeDev, explodeDev); v != nil {
			return *v
		}
	}
	// route 4: a wildcard read of a map gives the values the map has under the merge-key rules (as a multiset)
	if want.K == model.Map && len(want.Keys) > 0 { // (a wildcard that matches nothing creates the key "*": C01's open finding)
		wq := "[" + q + ` | .["*"]]`
		g4, o4 := jsonOne(wq, c.Text)
		if v := fail(o4, "route 4"); v != nil {
			return *v
		}
		multiset := func(m *model.Value) string {
			var xs []string
			for _, x := range m.Vals {
				xs = append(xs, hx.SortKeys(x).JSON())
			}
			sort.Strings(xs)
			return strings.Join(xs, "\n")
		}
		seqset := func(sv *model.Value) string {
			var xs []string
			for _, x := range sv.Elem {
				xs = append(xs, hx.SortKeys(x).JSON())
			}
			sort.Strings(xs)
			return strings.Join(xs, "\n")
		}
		if g4 == nil || g4.K != model.Seq {
			return hx.Bad("", "route 4 (wildcard) failed (%s) reading %s of\n%s", o4.Err, wq, c.Text)
		}
		if seqset(g4) != multiset(want) {
			sig := ""
			// the open finding: the entries a traversal meets (merge list back to front ...), each printed as explode resolves it
			if dn, dok := nodeAtPath(root, c.Path, traverseDev); dok && dn.K == gen.YMap {
				_, dvals := entries(dn, traverseDev)
				dm := model.NewMap()
				for i, x := range dvals {
					dm.Keys = append(dm.Keys, fmt.Sprint(i))
					dm.Vals = append(dm.Vals, resolve(x, explodeDev))
				}
				if seqset(g4) == multiset(dm) {
					sig = "deviant:merge-later-write-wins"
				}
			}
			return hx.Bad(sig, "route 4 (wildcard): %s reads %s, the merge-key rules give the values of %s\n%s", wq, g4.JSON(), want.JSON(), c.Text)
		}
		labels = append(labels, "wildcard_read")
	}
	// explode leaves no alias, merge key or anchor behind
	unwrap := false
	ex := hx.Run("explode(.)", c.Text, hx.Opts{Unwrap: &unwrap})
	if v := fail(ex, "explode"); v != nil {
		return *v
	}
	if ex.Err != "" {
		return hx.Bad("", "explode(.) failed (%s):\n%s", ex.Err, c.Text)
	}
	nodes, err := hx.YAMLNodes(ex.Out)
	if err != nil || len(nodes) != 1 {
		return hx.Bad("", "explode(.) output unreadable (%v):\n%s", err, ex.Out)
	}
	var leftover string
	var scan func(n *yaml.Node)
	scan = func(n *yaml.Node) {
		if n.Kind == yaml.AliasNode {
			leftover = "alias *" + n.Value
		}
		if n.Anchor != "" {
			leftover = "anchor &" + n.Anchor
		}
		if n.Kind == yaml.MappingNode {
			for i := 0; i+1 < len(n.Content); i += 2 {
				if n.Content[i].Tag == "!!merge" || (n.Content[i].Value == "<<" && n.Content[i].Style == 0) {
					leftover = "merge key"
				}
			}
		}
		for _, ch := range n.Content {
			scan(ch)
		}
	}
	scan(nodes[0])
	if leftover != "" {
		return hx.Bad("", "explode(.) left a %s behind:\ninput:\n%s\noutput:\n%s", leftover, c.Text, ex.Out)
	}
	return hx.OK(overlap || (aliasCont && len(c.Path) > 0), c.Text+"\x00"+q, labels...)
}

func TestProp(t *testing.T) {
	hx.RunProperty(t, hx.NewSub("merge_keys", 6000, 40000, genCase, check))
}

func js(v *model.Value) string {
	if v == nil {
		return "<no result>"
	}
	return v.JSON()
}
