package c14

import (
	"bytes"
	"encoding/csv"
	"fmt"
	"math"
	"strconv"
	"strings"

	"github.com/mikefarah/yq/v4/pkg/yqlib"
	lua "github.com/yuin/gopher-lua"
	"pgregory.net/rapid"
	"verif/hx"
	"verif/model"
)

// ---------------------------------------------------------------------------
// properties: trees with sequences, separator and bracket preferences

type PropsTree struct {
	Doc      string `json:"doc"` // JSON: maps / sequences with string leaves, no empty containers
	Sep      string `json:"sep"` // --properties-separator ("" = default)
	Brackets bool   `json:"brackets"`
}

func genPTree(t *rapid.T, depth int) *model.Value {
	k := rapid.IntRange(0, 5).Draw(t, "pk")
	if depth <= 0 || k <= 1 {
		s := genStr(t, "pl")
		if strings.HasPrefix(s, " ") || strings.Contains(s, "\x01") {
			s = "v" + strings.TrimLeft(s, " ") // leading blanks are the open finding; keep the search past it
			s = strings.ReplaceAll(s, "\x01", "")
		}
		return model.NewStr(s)
	}
	if k <= 3 {
		m := model.NewMap()
		for i := rapid.IntRange(1, 3).Draw(t, "pmn"); i > 0; i-- {
			key := rapid.SampledFrom([]string{"a", "b", "key", "x y", "q:r", "ünï", "z", "a*", "k?y", "n#m", "v1", "tab\tk"}).Draw(t, "pmk")
			if _, dup := m.Get(key); !dup {
				m.Set(key, genPTree(t, depth-1))
			}
		}
		return m
	}
	s := model.NewSeq()
	for i := rapid.IntRange(1, 3).Draw(t, "psn"); i > 0; i-- {
		s.Elem = append(s.Elem, genPTree(t, depth-1))
	}
	return s
}

func flatten(v *model.Value, path string, brackets bool, out *[][2]string) {
	switch v.K {
	case model.Map:
		for i, k := range v.Keys {
			p := k
			if path != "" {
				p = path + "." + k
			}
			flatten(v.Vals[i], p, brackets, out)
		}
	case model.Seq:
		for i, e := range v.Elem {
			p := fmt.Sprintf("%s.%d", path, i)
			if brackets {
				p = fmt.Sprintf("%s[%d]", path, i)
			}
			if path == "" {
				p = strconv.Itoa(i)
			}
			flatten(e, p, brackets, out)
		}
	default:
		*out = append(*out, [2]string{path, v.S})
	}
}

func checkPropsTree(c PropsTree) hx.Verdict {
	doc, err := model.ParseJSON(c.Doc)
	if err != nil || doc.K != model.Map {
		return hx.Disc("not_a_map")
	}
	sep := c.Sep
	tweak := func() {
		if c.Sep != "" {
			yqlib.ConfiguredPropertiesPreferences.KeyValueSeparator = c.Sep
		}
		yqlib.ConfiguredPropertiesPreferences.UseArrayBrackets = c.Brackets
	}
	if sep == "" {
		sep = " = "
	}
	// encode with the preferences, read with the harness's reader
	enc := hx.Run(".", c.Doc, hx.Opts{In: "json", Out: "props", Tweak: tweak})
	if v := crash(enc, c.Doc); v != nil {
		return *v
	}
	if enc.Err != "" {
		return hx.Bad("", "properties encode failed (%s): %s", enc.Err, c.Doc)
	}
	var want [][2]string
	flatten(doc, "", c.Brackets, &want)
	pairs, err := readProps(enc.Out)
	if err != nil {
		return hx.Bad("", "properties output unreadable (%v): %q", err, enc.Out)
	}
	if fmt.Sprint(pairs) != fmt.Sprint(want) {
		return hx.Bad("", "properties encode (separator %q, brackets %v): the output reads as %q, expected %q (output %q)", c.Sep, c.Brackets, pairs, want, enc.Out)
	}
	for _, line := range strings.Split(strings.TrimRight(enc.Out, "\n"), "\n") {
		if !strings.Contains(line, sep) {
			return hx.Bad("", "properties encode: separator %q missing from line %q", sep, line)
		}
	}
	// decode the dotted form written by the harness
	var flat [][2]string
	flatten(doc, "", false, &flat)
	var b strings.Builder
	for _, kv := range flat {
		b.WriteString(escKey(kv[0]) + " = " + escVal(kv[1]) + "\n")
	}
	got, o := runJSON(".", b.String(), "props")
	if v := crash(o, b.String()); v != nil {
		return *v
	}
	if got == nil || !looseEqual(got, doc) {
		return hx.Bad("", "properties decode: got %s (err %q), the text denotes %s: %q", js(got), o.Err, c.Doc, b.String())
	}
	if !c.Brackets {
		rt, o2 := runPair("to_props | from_props", c.Doc)
		if v := crash(o2, "to_props|from_props"); v != nil {
			return *v
		}
		if rt == nil || !looseEqual(rt, doc) {
			return hx.Bad("", "to_props | from_props is not the identity: %s from %s (err %q)", js(rt), c.Doc, o2.Err)
		}
	}
	return hx.OK(strings.Contains(c.Doc, "[") || doc.Depth() >= 2, c.Doc+c.Sep+fmt.Sprint(c.Brackets), "props_tree", fmt.Sprintf("props_brackets_%v", c.Brackets))
}

func genPropsTree(t *rapid.T) PropsTree {
	m := model.NewMap()
	for i := rapid.IntRange(1, 3).Draw(t, "n"); i > 0; i-- {
		key := rapid.SampledFrom([]string{"a", "b", "person", "x y", "q:r", "ünï", "a*"}).Draw(t, "k")
		if _, dup := m.Get(key); !dup {
			m.Set(key, genPTree(t, 3))
		}
	}
	return PropsTree{Doc: m.JSON(), Sep: rapid.SampledFrom([]string{"", "", "=", ":", " : ", " ", "\t"}).Draw(t, "sep"), Brackets: rapid.Bool().Draw(t, "br")}
}

// ---------------------------------------------------------------------------
// CSV with --csv-auto-parse=false and a custom separator: every field is text

type CSVRaw struct {
	Header []string   `json:"header"`
	Rows   [][]string `json:"rows"`
	Sep    string     `json:"sep"`
}

func genCSVRaw(t *rapid.T) CSVRaw {
	c := CSVRaw{Sep: rapid.SampledFrom([]string{",", ";", "|", "\t"}).Draw(t, "sep")}
	nc := rapid.IntRange(1, 4).Draw(t, "nc")
	for i := 0; i < nc; i++ {
		c.Header = append(c.Header, fmt.Sprintf("h%d", i)+rapid.SampledFrom([]string{"", " x", ",y", "\"q\"", "é", ";z", "\nnl"}).Draw(t, "hs"))
	}
	for r := rapid.IntRange(1, 4).Draw(t, "nr"); r > 0; r-- {
		var row []string
		for i := 0; i < nc; i++ {
			f := genStr(t, "f")
			if rapid.IntRange(0, 5).Draw(t, "multi") == 0 {
				f += rapid.SampledFrom([]string{"\nsecond line", "\r\ncrlf", ",", ";", "\"", "\"\"", "|", "\n"}).Draw(t, "tail")
			}
			if f == "~" || strings.Contains(f, "\x01") {
				f = "tilde"
			}
			row = append(row, f)
		}
		c.Rows = append(c.Rows, row)
	}
	return c
}

func checkCSVRaw(c CSVRaw) hx.Verdict {
	sep := []rune(c.Sep)[0]
	tweak := func() {
		yqlib.ConfiguredCsvPreferences.Separator = sep
		yqlib.ConfiguredCsvPreferences.AutoParse = false
	}
	var buf bytes.Buffer
	w := csv.NewWriter(&buf)
	w.Comma = sep
	_ = w.Write(c.Header)
	for _, r := range c.Rows {
		_ = w.Write(r)
	}
	w.Flush()
	text := buf.String()
	// encoding/csv's reader turns \r\n inside a quoted field into \n: that is the format's reading, so the truth uses it too
	rd0 := csv.NewReader(strings.NewReader(text))
	rd0.Comma = sep
	norm, err := rd0.ReadAll()
	if err != nil || len(norm) != len(c.Rows)+1 {
		return hx.Disc("generator_unsound")
	}
	truth := model.NewSeq()
	for _, r := range norm[1:] {
		m := model.NewMap()
		for i, h := range norm[0] {
			m.Keys = append(m.Keys, h)
			m.Vals = append(m.Vals, model.NewStr(r[i]))
		}
		truth.Elem = append(truth.Elem, m)
	}
	if truth.HasDupKeys() {
		return hx.Disc("dup_header")
	}
	o := hx.Run(".", text, hx.Opts{In: "csv", Out: "json", IndentSet: true, Tweak: tweak})
	if v := crash(o, text); v != nil {
		return *v
	}
	if o.Err != "" {
		return hx.Bad("", "CSV (separator %q) rejected (%s): %q", c.Sep, o.Err, text)
	}
	got, err := model.ParseJSON(strings.TrimSpace(o.Out))
	if err != nil {
		return hx.Bad("", "CSV decode printed %q", o.Out)
	}
	if !looseEqual(got, truth) {
		return hx.Bad("", "CSV decode (separator %q, auto-parse off): got %s, the text denotes %s: %q", c.Sep, got.JSON(), truth.JSON(), text)
	}
	enc := hx.Run(".", truth.JSON(), hx.Opts{In: "json", Out: "csv", Tweak: tweak})
	if v := crash(enc, truth.JSON()); v != nil {
		return *v
	}
	if enc.Err != "" {
		return hx.Bad("", "CSV encode failed (%s): %s", enc.Err, truth.JSON())
	}
	rd := csv.NewReader(strings.NewReader(enc.Out))
	rd.Comma = sep
	recs, err := rd.ReadAll()
	if err != nil || fmt.Sprint(recs) != fmt.Sprint(norm) {
		return hx.Bad("", "CSV encode (separator %q): encoding/csv reads %q (err %v) from yq's output, expected %q", c.Sep, recs, err, norm)
	}
	// a single row through @csv / @tsv and back
	row := model.NewSeq()
	for _, f := range norm[1] {
		row.Elem = append(row.Elem, model.NewStr(f))
	}
	for _, op := range []struct {
		enc string
		sep rune
	}{{"@csv", ','}, {"@tsv", '\t'}} {
		e, o := runPair(op.enc, row.JSON())
		if v := crash(o, op.enc); v != nil {
			return *v
		}
		if e == nil || e.K != model.Str {
			return hx.Bad("", "%s failed on %s (%s)", op.enc, row.JSON(), o.Err)
		}
		r2 := csv.NewReader(strings.NewReader(e.S))
		r2.Comma = op.sep
		rec, err := r2.ReadAll()
		if err != nil || len(rec) != 1 || fmt.Sprint(rec[0]) != fmt.Sprint(norm[1]) || len(rec[0]) != len(norm[1]) {
			return hx.Bad("", "%s of %s is %q, which encoding/csv reads as %q (err %v)", op.enc, row.JSON(), e.S, rec, err)
		}
	}
	nt := strings.ContainsAny(text, "\"\n")
	return hx.OK(nt, text, "csv_raw", "csv_sep_"+strconv.Quote(c.Sep))
}

// ---------------------------------------------------------------------------
// Lua from YAML: block-style strings (long brackets), number spellings, preferences

type LuaYAML struct {
	Entries []LuaEntry `json:"entries"`
	Unq     bool       `json:"unquoted"`
	Globals bool       `json:"globals"`
}

type LuaEntry struct {
	Key   string   `json:"key"`
	Kind  string   `json:"kind"` // literal, keep, plain
	Lines []string `json:"lines,omitempty"`
	Plain string   `json:"plain,omitempty"`
}

var luaPlain = []struct {
	text string
	num  float64
	kind string // n number, t true, f false, z nil, s string
}{
	{"12", 12, "n"}, {"-7", -7, "n"}, {"0x1F", 31, "n"}, {"0o17", 15, "n"}, {"1e3", 1000, "n"}, {"2.5", 2.5, "n"}, {"-0.125", -0.125, "n"},
	{".inf", math.Inf(1), "n"}, {"-.inf", math.Inf(-1), "n"}, {".nan", math.NaN(), "n"}, {".NaN", math.NaN(), "n"}, {".Inf", math.Inf(1), "n"},
	{"true", 0, "t"}, {"True", 0, "t"}, {"FALSE", 0, "f"}, {"null", 0, "z"}, {"~", 0, "z"},
	{"0xFF", 255, "n"}, {"6.02e23", 6.02e23, "n"}, {"1.0", 1, "n"}, {"+12", 12, "n"}, {".5", 0.5, "n"}, {"0", 0, "n"},
}

func genLuaYAML(t *rapid.T) LuaYAML {
	c := LuaYAML{Unq: rapid.Bool().Draw(t, "unq"), Globals: rapid.IntRange(0, 3).Draw(t, "glob") == 0}
	seen := map[string]bool{}
	for i := rapid.IntRange(1, 4).Draw(t, "n"); i > 0; i-- {
		e := LuaEntry{Key: rapid.SampledFrom([]string{"a", "b", "key", "end", "nil", "_ok", "x9", "with space", "9x", "if", "ünï", "x-y"}).Draw(t, "k")}
		if seen[e.Key] {
			continue
		}
		seen[e.Key] = true
		switch rapid.IntRange(0, 2).Draw(t, "kind") {
		case 0:
			e.Kind = rapid.SampledFrom([]string{"literal", "keep"}).Draw(t, "style")
			for j := rapid.IntRange(1, 3).Draw(t, "nl"); j > 0; j-- {
				e.Lines = append(e.Lines, rapid.SampledFrom([]string{"line", "x]]y", "end]", "]", "a]=]b", "]=", "[[", "q\"q", "back\\slash", "it's", "tab\there", "]]", "]==]", "--c", "é"}).Draw(t, "ln"))
			}
		case 1:
			if rapid.Bool().Draw(t, "quoted") {
				// a quoted YAML string: the quoting style of the input is not the Lua encoder's business,
				// whatever the text holds (apostrophes, quotation marks, backslashes)
				e.Kind = rapid.SampledFrom([]string{"single", "double"}).Draw(t, "qstyle")
				e.Plain = rapid.SampledFrom([]string{"it's", "'", "a 'b' c", "say \"hi\"", "back\\slash", "mix ' and \"", "plain words", "]] '", "x'"}).Draw(t, "qtext")
				break
			}
			fallthrough
		default:
			e.Kind = "plain"
			e.Plain = rapid.SampledFrom(luaPlain).Draw(t, "pl").text
		}
		c.Entries = append(c.Entries, e)
	}
	return c
}

func checkLuaYAML(c LuaYAML) hx.Verdict {
	if len(c.Entries) == 0 {
		return hx.Disc("empty")
	}
	var y strings.Builder
	type want struct {
		kind string
		s    string
		n    float64
	}
	wants := map[string]want{}
	for _, e := range c.Entries {
		switch e.Kind {
		case "literal", "keep":
			ind := "|-"
			s := strings.Join(e.Lines, "\n")
			if e.Kind == "keep" {
				ind = "|"
				s += "\n"
			}
			y.WriteString(strconv.Quote(e.Key) + ": " + ind + "\n")
			for _, l := range e.Lines {
				y.WriteString("  " + l + "\n")
			}
			wants[e.Key] = want{kind: "s", s: s}
		case "single":
			y.WriteString(strconv.Quote(e.Key) + ": '" + strings.ReplaceAll(e.Plain, "'", "''") + "'\n")
			wants[e.Key] = want{kind: "s", s: e.Plain}
		case "double":
			y.WriteString(strconv.Quote(e.Key) + ": " + strconv.Quote(e.Plain) + "\n")
			wants[e.Key] = want{kind: "s", s: e.Plain}
		default:
			y.WriteString(strconv.Quote(e.Key) + ": " + e.Plain + "\n")
			for _, p := range luaPlain {
				if p.text == e.Plain {
					wants[e.Key] = want{kind: p.kind, n: p.num}
				}
			}
		}
	}
	tweak := func() {
		yqlib.ConfiguredLuaPreferences.UnquotedKeys = c.Unq
		yqlib.ConfiguredLuaPreferences.Globals = c.Globals
	}
	enc := hx.Run(".", y.String(), hx.Opts{In: "yaml", Out: "lua", Tweak: tweak})
	if v := crash(enc, y.String()); v != nil {
		return *v
	}
	if enc.Err != "" {
		return hx.Bad("", "Lua encode failed (%s): %q", enc.Err, y.String())
	}
	L := lua.NewState(lua.Options{SkipOpenLibs: true})
	defer L.Close()
	src := enc.Out
	if c.Globals {
		// gopher-lua is Lua 5.1: it has no _ENV; the documented output for quoted global keys is `_ENV[...]`
		L.SetGlobal("_ENV", L.Get(lua.GlobalsIndex))
	}
	sigFor := func() string { return "" }
	if err := L.DoString(src); err != nil {
		return hx.Bad(sigFor(), "yq's Lua output does not run (%v): %q from %q", err, enc.Out, y.String())
	}
	var tbl *lua.LTable
	if c.Globals {
		tbl = L.Get(lua.GlobalsIndex).(*lua.LTable)
	} else {
		tb, ok := L.Get(-1).(*lua.LTable)
		if !ok {
			return hx.Bad("", "yq's Lua output does not return a table: %q", enc.Out)
		}
		tbl = tb
	}
	for _, e := range c.Entries {
		w := wants[e.Key]
		lv := tbl.RawGetString(e.Key)
		ok := false
		switch w.kind {
		case "s":
			s, is := lv.(lua.LString)
			ok = is && string(s) == w.s
		case "n":
			n, is := lv.(lua.LNumber)
			ok = is && (float64(n) == w.n || math.IsNaN(w.n) && math.IsNaN(float64(n)))
		case "t":
			ok = lv == lua.LTrue
		case "f":
			ok = lv == lua.LFalse
		case "z":
			ok = lv == lua.LNil
		}
		if !ok {
			return hx.Bad(sigFor(), "Lua encode: key %q is %s (%q) after executing yq's output, expected %+v; yaml %q, lua %q", e.Key, lv.Type(), lv.String(), w, y.String(), enc.Out)
		}
	}
	nt := false
	for _, e := range c.Entries {
		if e.Kind != "plain" {
			nt = true
		}
	}
	return hx.OK(nt || c.Unq || c.Globals, y.String()+fmt.Sprint(c.Unq, c.Globals), "lua_yaml", fmt.Sprintf("lua_unquoted_%v_globals_%v", c.Unq, c.Globals))
}

// ---------------------------------------------------------------------------
// XML with --xml-attribute-prefix / --xml-content-name and indentation

type XMLPrefs struct {
	Root    *XNode `json:"root"`
	Prefix  string `json:"prefix"`
	Content string `json:"content"`
	Indent  int    `json:"indent"`
}

func (n *XNode) valueP(prefix, content string) *model.Value {
	if len(n.Attrs) == 0 && len(n.Kids) == 0 {
		if n.Text == "" {
			return model.NewNull()
		}
		return model.NewStr(n.Text)
	}
	m := model.NewMap()
	if n.Text != "" {
		m.Set(content, model.NewStr(n.Text))
	}
	for _, a := range n.Attrs {
		m.Set(prefix+a[0], model.NewStr(a[1]))
	}
	for _, k := range n.Kids {
		kv := k.valueP(prefix, content)
		if ex, ok := m.Get(k.Name); ok {
			if ex.K == model.Seq && ex.PKey == "\x00multi" {
				ex.Elem = append(ex.Elem, kv)
			} else {
				s := model.NewSeq(ex, kv)
				s.PKey = "\x00multi"
				m.Set(k.Name, s)
			}
		} else {
			m.Set(k.Name, kv)
		}
	}
	return m
}

func checkXMLPrefs(c XMLPrefs) hx.Verdict {
	var b strings.Builder
	c.Root.text(&b)
	text := b.String()
	tweak := func() {
		yqlib.ConfiguredXMLPreferences.AttributePrefix = c.Prefix
		yqlib.ConfiguredXMLPreferences.ContentName = c.Content
	}
	truth := model.NewMap().Set(c.Root.Name, c.Root.valueP(c.Prefix, c.Content))
	collides := truth.HasDupKeys()
	var walk func(n *XNode)
	walk = func(n *XNode) {
		if strings.HasPrefix(n.Name, c.Prefix) || n.Name == c.Content || strings.HasPrefix(c.Content, c.Prefix) && c.Prefix != "+@" && c.Prefix != "+" {
			collides = true
		}
		for _, k := range n.Kids {
			walk(k)
		}
	}
	walk(c.Root)
	if collides {
		return hx.Disc("prefix_collides")
	}
	o := hx.Run(".", text, hx.Opts{In: "xml", Out: "json", IndentSet: true, Tweak: tweak})
	if v := crash(o, text); v != nil {
		return *v
	}
	got, err := model.ParseJSON(strings.TrimSpace(o.Out))
	if o.Err != "" || err != nil {
		return hx.Bad("", "XML rejected (%s): %s", o.Err, text)
	}
	if !looseEqual(got, truth) {
		return hx.Bad("", "XML decode (prefix %q, content %q): got %s, the documented mapping gives %s: %s", c.Prefix, c.Content, got.JSON(), truth.JSON(), text)
	}
	enc := hx.Run(".", truth.JSON(), hx.Opts{In: "json", Out: "xml", IndentSet: true, Indent: c.Indent, Tweak: tweak})
	if v := crash(enc, truth.JSON()); v != nil {
		return *v
	}
	if enc.Err != "" {
		return hx.Bad("", "XML encode failed (%s): %s", enc.Err, truth.JSON())
	}
	back, err := parseXTree(enc.Out)
	if err != nil {
		return hx.Bad("", "XML output is not well-formed (%v): %q from %s", err, enc.Out, truth.JSON())
	}
	if canon(back) != canon(c.Root) {
		return hx.Bad("", "XML encode (prefix %q, content %q, indent %d): encoding/xml reads %s from yq's output, expected %s (output %q)", c.Prefix, c.Content, c.Indent, canon(back), canon(c.Root), enc.Out)
	}
	return hx.OK(true, text+c.Prefix+c.Content+strconv.Itoa(c.Indent), "xml_prefs", "xml_indent_"+strconv.Itoa(c.Indent))
}

func genXMLPrefs(t *rapid.T) XMLPrefs {
	return XMLPrefs{
		Root:    genX(t, rapid.IntRange(1, 3).Draw(t, "depth")),
		Prefix:  rapid.SampledFrom([]string{"+@", "+", "@", "_", "attr_"}).Draw(t, "prefix"),
		Content: rapid.SampledFrom([]string{"+content", "#text", "_", "value"}).Draw(t, "content"),
		Indent:  rapid.SampledFrom([]int{0, 1, 2, 4}).Draw(t, "indent"),
	}
}
