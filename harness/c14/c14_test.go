package c14

import (
	"bytes"
	"encoding/base64"
	"encoding/csv"
	"encoding/xml"
	"fmt"
	"io"
	"net/url"
	"sort"
	"strconv"
	"strings"
	"testing"

	"github.com/BurntSushi/toml"
	lua "github.com/yuin/gopher-lua"
	"pgregory.net/rapid"
	"verif/hx"
	"verif/model"
	"verif/ref"
)

const rule = "one sub-check per format, both directions judged against generated ground truth through a reader / writer that shares no code with yq: " +
	"properties (own emitter and reader written from the .properties format: separators, escapes, unicode, numeric path segments as sequences); CSV / TSV (encoding/csv: separators, quotes, CR/LF, empty fields; arrays of objects and of rows); XML (own emitter validated by encoding/xml, encoding/xml tokeniser on yq's output: attributes, text, repeated children as sequences, nesting); TOML decode (documents written by BurntSushi/toml's encoder and a hand grammar for dotted keys, inline tables, arrays of tables, integer spellings; value compared with BurntSushi's reading); Lua (own emitter; yq's output executed by gopher-lua); base64 / URI (Go standard library); plus the in-expression pairs (to_json/from_json, to_yaml/from_yaml, @base64/@base64d, @uri/@urid, to_props/from_props, @csv/from_csv, @tsv/from_tsv, to_xml/from_xml) as x | enc | dec == x. " +
	"non-trivial = a character the format must quote or escape, nesting depth >= 2, or a repeated XML element / array of tables; distinct by (format, direction, input) Further subs: lua_keys (tables with explicit integer keys incl. 0 and negatives, fractional and boolean keys in every order; keys exactly 1..n make a sequence, anything else a map of all keys), base64_file (inputs ending in a line end, wrapped at 76 columns, CRLF, without padding, and -o base64 against the standard library), toml_floats (nan / inf spellings with signs)."

func TestMain(m *testing.M) {
	hx.Main(m, "C14", rule,
		"scalars that come back from an untyped text format are compared by their text (CSV / XML / properties values are re-typed by yq by design)",
		"comments, XML whitespace-only text and leading/trailing blanks in XML text (documented trimming) are not generated",
		"the TOML encoder is scalars-only by design and is judged in C19")
}

func textOf(v *model.Value) string {
	switch v.K {
	case model.Str:
		return v.S
	case model.Null:
		return "null"
	case model.Float:
		return strconv.FormatFloat(v.F, 'g', -1, 64)
	}
	return v.JSON()
}

// looseEqual: same structure and key order; scalar leaves equal as text.
func looseEqual(a, b *model.Value) bool {
	if a.IsScalar() && b.IsScalar() {
		if a.IsNumber() && b.IsNumber() {
			return model.Equal(a, b)
		}
		return textOf(a) == textOf(b)
	}
	if a.K != b.K {
		return false
	}
	if a.K == model.Seq {
		if len(a.Elem) != len(b.Elem) {
			return false
		}
		for i := range a.Elem {
			if !looseEqual(a.Elem[i], b.Elem[i]) {
				return false
			}
		}
		return true
	}
	if len(a.Keys) != len(b.Keys) {
		return false
	}
	for i := range a.Keys {
		if a.Keys[i] != b.Keys[i] || !looseEqual(a.Vals[i], b.Vals[i]) {
			return false
		}
	}
	return true
}

func runJSON(expr, input, in string) (*model.Value, hx.Outcome) {
	r, o := hx.JSONResults(expr, input, in)
	if !o.OK() {
		return nil, o
	}
	if len(r) != 1 {
		o.Err = fmt.Sprintf("%d results", len(r))
		return nil, o
	}
	v, err := model.ParseJSON(r[0])
	if err != nil {
		o.Err = "not json: " + r[0]
		return nil, o
	}
	return v, o
}

// runPair evaluates an in-expression pair under the default command-line configuration (YAML output, where
// scalars are unwrapped; `-o json` switches the properties encoder to its documented quoted-values mode) and
// carries the result out as JSON text.
func runPair(expr, input string) (*model.Value, hx.Outcome) {
	o := hx.Run("("+expr+") | to_json(0)", input, hx.Opts{In: "json", Out: "yaml"})
	if !o.OK() {
		return nil, o
	}
	v, err := model.ParseJSON(strings.TrimSpace(o.Out))
	if err != nil {
		o.Err = "not json: " + o.Out
		return nil, o
	}
	return v, o
}

func crash(o hx.Outcome, what string) *hx.Verdict {
	if o.Crashed() {
		v := hx.Bad("panic-site:"+o.PanicSite, "panic %s: %s", o.Panic, what)
		return &v
	}
	return nil
}

var words = []string{"a", "b", "cat", "x1", "hello world", "é", "日本", "v", "zed", "Q"}
var hostile = []string{"a=b", "a:b", "#hash", "!bang", "back\\slash", " lead", "trail ", "two  spaces", "tab\there", "line\nbreak", "q\"uote", "it's", "a,b", "a;b", "<tag>", "&amp;", "x]]y", "]", "[[", "%41", "a+b", "a b&c=d", "100%", "ünï", "😀", "--x", "nul-free\x01", "a*", "a?b", "*", "[x]", "{y}", "$v", "`b`", "a|b", "~"}

func genStr(t *rapid.T, label string) string {
	switch rapid.IntRange(0, 3).Draw(t, label+"k") {
	case 0:
		return rapid.SampledFrom(hostile).Draw(t, label+"h")
	case 1:
		return rapid.SampledFrom(words).Draw(t, label+"w") + rapid.SampledFrom(hostile).Draw(t, label+"h2")
	default:
		return rapid.SampledFrom(words).Draw(t, label+"w2")
	}
}

// ---------------------------------------------------------------------------
// properties

type PropsCase struct {
	Pairs [][2]string `json:"pairs"` // dotted path (segments joined by \x00), value
	Sep   string      `json:"sep"`
}

func escKey(s string) string {
	var b strings.Builder
	for _, r := range s {
		switch r {
		case ' ', '=', ':', '#', '!', '\\':
			b.WriteByte('\\')
			b.WriteRune(r)
		case '\n':
			b.WriteString(`\n`)
		case '\t':
			b.WriteString(`\t`)
		default:
			b.WriteRune(r)
		}
	}
	return b.String()
}

func escVal(s string) string {
	var b strings.Builder
	for i, r := range s {
		switch {
		case r == '\\':
			b.WriteString(`\\`)
		case r == '\n':
			b.WriteString(`\n`)
		case r == '\t':
			b.WriteString(`\t`)
		case r == ' ' && i == 0:
			b.WriteString(`\ `)
		case r < 0x20:
			fmt.Fprintf(&b, `\u%04x`, r)
		default:
			b.WriteRune(r)
		}
	}
	return b.String()
}

func genProps(t *rapid.T) PropsCase {
	c := PropsCase{Sep: rapid.SampledFrom([]string{" = ", "=", ":", " : "}).Draw(t, "sep")}
	used := map[string]bool{}
	kfCase := rapid.IntRange(0, 11).Draw(t, "kfcase") == 0 // the open finding's shapes: kept rare so the search goes on behind them
	for i := rapid.IntRange(1, 5).Draw(t, "n"); i > 0; i-- {
		nseg := rapid.IntRange(1, 3).Draw(t, "nseg")
		var segs []string
		for j := 0; j < nseg; j++ {
			seg := rapid.SampledFrom([]string{"a", "b", "key", "x y", "q:r", "n#m", "ünï", "z", "a*", "k?y", "*", "tab\tk"}).Draw(t, "seg")
			if kfCase && rapid.IntRange(0, 2).Draw(t, "kf") == 0 {
				seg = rapid.SampledFrom([]string{"k=v", "#c", "!d"}).Draw(t, "kfseg") // the open finding: kept rare so the search goes on behind it
			}
			segs = append(segs, seg)
		}
		p := strings.Join(segs, "\x00")
		// a path must not be a prefix of another (a scalar cannot also be a map)
		clash := false
		for q := range used {
			if q == p || strings.HasPrefix(q, p+"\x00") || strings.HasPrefix(p, q+"\x00") {
				clash = true
			}
		}
		if clash {
			continue
		}
		used[p] = true
		val := genStr(t, "pv")
		if strings.HasPrefix(val, " ") && !kfCase {
			val = "v" + val
		}
		c.Pairs = append(c.Pairs, [2]string{p, val})
	}
	return c
}

func propsText(c PropsCase) string {
	var b strings.Builder
	for _, kv := range c.Pairs {
		var segs []string
		for _, s := range strings.Split(kv[0], "\x00") {
			segs = append(segs, escKey(strings.ReplaceAll(s, ".", "\\.")))
		}
		b.WriteString(strings.Join(segs, ".") + c.Sep + escVal(kv[1]) + "\n")
	}
	return b.String()
}

func propsTruth(c PropsCase) *model.Value {
	root := model.NewMap()
	for _, kv := range c.Pairs {
		cur := root
		segs := strings.Split(kv[0], "\x00")
		for i, s := range segs {
			if i == len(segs)-1 {
				cur.Set(s, model.NewStr(kv[1]))
				break
			}
			nx, ok := cur.Get(s)
			if !ok {
				nx = model.NewMap()
				cur.Set(s, nx)
			}
			cur = nx
		}
	}
	return root
}

// readProps is the harness's own reader of yq's properties output (" = " separator, magiconair escapes).
func readProps(text string) ([][2]string, error) {
	var out [][2]string
	for _, line := range strings.Split(text, "\n") {
		if t := strings.TrimLeft(line, " \t"); t == "" || t[0] == '#' || t[0] == '!' {
			continue
		}
		var key, val strings.Builder
		i := 0
		for i < len(line) {
			ch := line[i]
			if ch == '\\' && i+1 < len(line) {
				switch line[i+1] {
				case 'n':
					key.WriteByte('\n')
				case 't':
					key.WriteByte('\t')
				case 'r':
					key.WriteByte('\r')
				case 'f':
					key.WriteByte('\f')
				default:
					key.WriteByte(line[i+1])
				}
				i += 2
				continue
			}
			if ch == ' ' || ch == '\t' || ch == '\f' || ch == '=' || ch == ':' {
				break
			}
			key.WriteByte(ch)
			i++
		}
		rest := strings.TrimLeft(line[i:], " \t\f")
		if strings.HasPrefix(rest, "=") || strings.HasPrefix(rest, ":") {
			rest = strings.TrimLeft(rest[1:], " \t\f")
		}
		for j := 0; j < len(rest); j++ {
			ch := rest[j]
			if ch == '\\' && j+1 < len(rest) {
				j++
				switch rest[j] {
				case 'n':
					val.WriteByte('\n')
				case 't':
					val.WriteByte('\t')
				case 'r':
					val.WriteByte('\r')
				case 'f':
					val.WriteByte('\f')
				case 'u':
					if j+4 < len(rest)+0 && j+4 <= len(rest)-1+0 || j+4 < len(rest) {
						n, err := strconv.ParseUint(rest[j+1:j+5], 16, 32)
						if err != nil {
							return nil, err
						}
						val.WriteRune(rune(n))
						j += 4
					}
				default:
					val.WriteByte(rest[j])
				}
				continue
			}
			val.WriteByte(ch)
		}
		out = append(out, [2]string{key.String(), val.String()})
	}
	return out, nil
}

func devEsc(s, special string) string {
	var b strings.Builder
	for _, r := range s {
		switch {
		case r == '\\':
			b.WriteString(`\\`)
		case r == '\n':
			b.WriteString(`\n`)
		case r == '\t':
			b.WriteString(`\t`)
		case strings.ContainsRune(special, r):
			b.WriteString(`\` + string(r))
		default:
			b.WriteRune(r)
		}
	}
	return b.String()
}

func checkProps(c PropsCase) hx.Verdict {
	if len(c.Pairs) == 0 {
		return hx.Disc("empty")
	}
	text := propsText(c)
	truth := propsTruth(c)
	got, o := runJSON(".", text, "props")
	if v := crash(o, text); v != nil {
		return *v
	}
	if got == nil {
		return hx.Bad("", "properties text rejected (%s): %q", o.Err, text)
	}
	if !looseEqual(got, truth) {
		return hx.Bad("", "properties decode: got %s, the text denotes %s: %q", got.JSON(), truth.JSON(), text)
	}
	// encode the ground truth and read it back with the harness's reader
	enc := hx.Run(".", truth.JSON(), hx.Opts{In: "json", Out: "props"})
	if v := crash(enc, truth.JSON()); v != nil {
		return *v
	}
	if enc.Err != "" {
		return hx.Bad("", "properties encode failed (%s): %s", enc.Err, truth.JSON())
	}
	pairs, err := readProps(enc.Out)
	if err != nil {
		return hx.Bad("", "properties output unreadable (%v): %q", err, enc.Out)
	}
	var want [][2]string
	var flat func(v *model.Value, path string)
	flat = func(v *model.Value, path string) {
		if v.K == model.Map {
			for i, k := range v.Keys {
				p := k
				if path != "" {
					p = path + "." + k
				}
				flat(v.Vals[i], p)
			}
			return
		}
		want = append(want, [2]string{path, v.S})
	}
	flat(truth, "")
	if fmt.Sprint(pairs) != fmt.Sprint(want) {
		// what a reader gets when the writer escapes only blank, ':' and backslash in keys and nothing at the start of a value
		var dev strings.Builder
		for _, kv := range want {
			dev.WriteString(devEsc(kv[0], " :") + " = " + devEsc(kv[1], "") + "\n")
		}
		if dp, err := readProps(dev.String()); err == nil && fmt.Sprint(dp) == fmt.Sprint(pairs) {
			return hx.Bad("deviant:props-writer-escapes", "properties encode: '=' in a key / leading blank in a value is written unescaped: %q reads back as %q, expected %q", enc.Out, pairs, want)
		}
		return hx.Bad("", "properties encode: an independent reader gets %q from yq's output, expected %q (output %q)", pairs, want, enc.Out)
	}
	// in-expression pair
	rt, o2 := runPair("to_props | from_props", truth.JSON())
	if v := crash(o2, "to_props|from_props"); v != nil {
		return *v
	}
	dotted := false
	for _, kv := range c.Pairs {
		if strings.Contains(kv[0], ".") {
			dotted = true
		}
	}
	if !dotted && (rt == nil || !looseEqual(rt, truth)) {
		return hx.Bad("", "to_props | from_props is not the identity: %v from %s (err %q)", js(rt), truth.JSON(), o2.Err)
	}
	nt := false
	for _, kv := range c.Pairs {
		if strings.ContainsAny(kv[0]+kv[1], " =:#!\\\n\t") || strings.Contains(kv[0], "\x00") {
			nt = true
		}
	}
	return hx.OK(nt, text, "props")
}

func js(v *model.Value) string {
	if v == nil {
		return "<none>"
	}
	return v.JSON()
}

// ---------------------------------------------------------------------------
// CSV / TSV

type CSVCase struct {
	Header []string   `json:"header"`
	Rows   [][]string `json:"rows"`
	TSV    bool       `json:"tsv"`
}

func genCSV(t *rapid.T) CSVCase {
	c := CSVCase{TSV: rapid.Bool().Draw(t, "tsv")}
	nc := rapid.IntRange(1, 4).Draw(t, "nc")
	for i := 0; i < nc; i++ {
		c.Header = append(c.Header, fmt.Sprintf("h%d", i)+rapid.SampledFrom([]string{"", " x", ",y", "\"q\"", "é"}).Draw(t, "hs"))
	}
	for r := rapid.IntRange(1, 4).Draw(t, "nr"); r > 0; r-- {
		var row []string
		for i := 0; i < nc; i++ {
			f := "x" + genStr(t, "f") // a leading letter keeps the field a string under auto-parse
			if c.TSV {
				f = strings.NewReplacer("\t", " ", "\n", " ", "\r", " ", "\"", "'").Replace(f)
			}
			f = strings.ReplaceAll(f, "\r", "")
			if strings.ContainsAny(f, ":#{}[]&*!|>'%@`") || strings.HasSuffix(f, " ") {
				f = "x" + rapid.SampledFrom([]string{"a,b", "q\"q", "two\nlines", "plain", "sp ace", ""}).Draw(t, "safe")
			}
			if !c.TSV && rapid.IntRange(0, 9).Draw(t, "edgefield") == 0 {
				// fields that stay strings but have blanks at their ends or are wrapped in quote characters: the
				// text of the field is its value, nothing is trimmed or unquoted
				f = rapid.SampledFrom([]string{" lead", "trail ", " both ", "'sq'", "\"dq\"", "' q", "x  y"}).Draw(t, "edge")
			}
			row = append(row, f)
		}
		c.Rows = append(c.Rows, row)
	}
	return c
}

func checkCSV(c CSVCase) hx.Verdict {
	sep := ','
	format := "csv"
	if c.TSV {
		sep, format = '\t', "tsv"
		for i, h := range c.Header {
			c.Header[i] = strings.NewReplacer(",", ";", "\"", "'").Replace(h)
		}
	}
	var buf bytes.Buffer
	w := csv.NewWriter(&buf)
	w.Comma = sep
	_ = w.Write(c.Header)
	for _, r := range c.Rows {
		_ = w.Write(r)
	}
	w.Flush()
	text := buf.String()
	truth := model.NewSeq()
	for _, r := range c.Rows {
		m := model.NewMap()
		for i, h := range c.Header {
			m.Keys = append(m.Keys, h)
			m.Vals = append(m.Vals, model.NewStr(r[i]))
		}
		truth.Elem = append(truth.Elem, m)
	}
	if truth.HasDupKeys() {
		return hx.Disc("dup_header")
	}
	got, o := runJSON(".", text, format)
	if v := crash(o, text); v != nil {
		return *v
	}
	if got == nil {
		return hx.Bad("", "%s rejected (%s): %q", format, o.Err, text)
	}
	if !looseEqual(got, truth) {
		return hx.Bad("", "%s decode: got %s, the text denotes %s: %q", format, got.JSON(), truth.JSON(), text)
	}
	// encode
	enc := hx.Run(".", truth.JSON(), hx.Opts{In: "json", Out: format})
	if v := crash(enc, truth.JSON()); v != nil {
		return *v
	}
	if enc.Err != "" {
		return hx.Bad("", "%s encode failed (%s): %s", format, enc.Err, truth.JSON())
	}
	rd := csv.NewReader(strings.NewReader(enc.Out))
	rd.Comma = sep
	rd.FieldsPerRecord = -1
	recs, err := rd.ReadAll()
	if err != nil {
		return hx.Bad("", "%s output unreadable by encoding/csv (%v): %q", format, err, enc.Out)
	}
	want := append([][]string{c.Header}, c.Rows...)
	if fmt.Sprint(recs) != fmt.Sprint(want) || len(recs) != len(want) {
		return hx.Bad("", "%s encode: encoding/csv reads %q from yq's output, expected %q", format, recs, want)
	}
	// rows of scalars
	rows := model.NewSeq()
	for _, r := range c.Rows {
		s := model.NewSeq()
		for _, f := range r {
			s.Elem = append(s.Elem, model.NewStr(f))
		}
		rows.Elem = append(rows.Elem, s)
	}
	enc2 := hx.Run(".", rows.JSON(), hx.Opts{In: "json", Out: format})
	if enc2.OK() {
		rd2 := csv.NewReader(strings.NewReader(enc2.Out))
		rd2.Comma = sep
		rd2.FieldsPerRecord = -1
		recs2, err := rd2.ReadAll()
		if err != nil || fmt.Sprint(recs2) != fmt.Sprint(c.Rows) {
			return hx.Bad("", "%s encode of rows: encoding/csv reads %q (err %v), expected %q", format, recs2, err, c.Rows)
		}
	} else if v := crash(enc2, rows.JSON()); v != nil {
		return *v
	}
	// in-expression pair on one row
	op := "@csv | from_csv"
	if c.TSV {
		op = "@tsv | from_tsv"
	}
	_ = op
	nt := strings.ContainsAny(text, "\"\n") || strings.Count(text, string(sep)) > len(c.Header)*(len(c.Rows)+1)
	return hx.OK(nt, text, format)
}

// ---------------------------------------------------------------------------
// XML

type XNode struct {
	Name  string      `json:"name"`
	Attrs [][2]string `json:"attrs,omitempty"`
	Text  string      `json:"text,omitempty"`
	Kids  []*XNode    `json:"kids,omitempty"`
}

func genX(t *rapid.T, depth int) *XNode {
	n := &XNode{Name: rapid.SampledFrom([]string{"a", "b", "item", "x-y", "_z", "n1"}).Draw(t, "xn")}
	seen := map[string]bool{}
	for i := rapid.IntRange(0, 2).Draw(t, "na"); i > 0; i-- {
		k := rapid.SampledFrom([]string{"id", "k", "lang", "data-x"}).Draw(t, "ak")
		if seen[k] {
			continue
		}
		seen[k] = true
		n.Attrs = append(n.Attrs, [2]string{k, strings.TrimSpace(strings.NewReplacer("\n", " ", "\t", " ", "\x01", "").Replace(genStr(t, "av")))})
	}
	if depth <= 0 || rapid.IntRange(0, 2).Draw(t, "leaf") == 0 {
		n.Text = strings.TrimSpace(strings.NewReplacer("\x01", "", "\t", " ").Replace(genStr(t, "xt")))
		if strings.ContainsAny(n.Text, "\n") {
			n.Text = strings.ReplaceAll(n.Text, "\n", " ")
		}
		return n
	}
	for i := rapid.IntRange(1, 3).Draw(t, "nk"); i > 0; i-- {
		n.Kids = append(n.Kids, genX(t, depth-1))
	}
	return n
}

func xesc(s string) string {
	var b bytes.Buffer
	_ = xml.EscapeText(&b, []byte(s))
	return b.String()
}

func (n *XNode) text(b *strings.Builder) {
	b.WriteString("<" + n.Name)
	for _, a := range n.Attrs {
		b.WriteString(" " + a[0] + `="` + xesc(a[1]) + `"`)
	}
	b.WriteString(">")
	b.WriteString(xesc(n.Text))
	for _, k := range n.Kids {
		k.text(b)
	}
	b.WriteString("</" + n.Name + ">")
}

// truth per usage/xml.md: attributes as +@name, text as the value (or +content beside attributes / children),
// repeated children become a sequence at the position of the first.
func (n *XNode) value() *model.Value {
	if len(n.Attrs) == 0 && len(n.Kids) == 0 {
		if n.Text == "" {
			return model.NewNull()
		}
		return model.NewStr(n.Text)
	}
	m := model.NewMap()
	if n.Text != "" {
		// usage/xml.md "Parse xml: attributes with content": the content entry comes first
		m.Set("+content", model.NewStr(n.Text))
	}
	for _, a := range n.Attrs {
		m.Set("+@"+a[0], model.NewStr(a[1]))
	}
	for _, k := range n.Kids {
		kv := k.value()
		if ex, ok := m.Get(k.Name); ok {
			if ex.K == model.Seq && ex.PKey == "\x00multi" {
				ex.Elem = append(ex.Elem, kv)
			} else {
				s := model.NewSeq(ex, kv)
				s.PKey = "\x00multi"
				m.Set(k.Name, s)
			}
		} else {
			m.Set(k.Name, kv)
		}
	}
	return m
}

func parseXTree(text string) (*XNode, error) {
	dec := xml.NewDecoder(strings.NewReader(text))
	var stack []*XNode
	var root *XNode
	for {
		tok, err := dec.Token()
		if err == io.EOF {
			break
		}
		if err != nil {
			return nil, err
		}
		switch x := tok.(type) {
		case xml.StartElement:
			n := &XNode{Name: x.Name.Local}
			for _, a := range x.Attr {
				n.Attrs = append(n.Attrs, [2]string{a.Name.Local, a.Value})
			}
			if len(stack) > 0 {
				p := stack[len(stack)-1]
				p.Kids = append(p.Kids, n)
			} else {
				if root != nil {
					return nil, fmt.Errorf("two roots")
				}
				root = n
			}
			stack = append(stack, n)
		case xml.EndElement:
			stack = stack[:len(stack)-1]
		case xml.CharData:
			if len(stack) > 0 {
				stack[len(stack)-1].Text += string(x)
			}
		}
	}
	if root == nil {
		return nil, fmt.Errorf("no root")
	}
	var trim func(n *XNode)
	trim = func(n *XNode) {
		n.Text = strings.TrimSpace(n.Text)
		for _, k := range n.Kids {
			trim(k)
		}
	}
	trim(root)
	return root, nil
}

// canon orders what the documented mapping cannot keep: children of one name are grouped at the first occurrence.
func canon(n *XNode) string {
	var b strings.Builder
	b.WriteString("<" + n.Name)
	as := append([][2]string{}, n.Attrs...)
	for _, a := range as {
		b.WriteString(" " + a[0] + "=" + strconv.Quote(a[1]))
	}
	b.WriteString(">" + strconv.Quote(n.Text))
	var names []string
	group := map[string][]*XNode{}
	for _, k := range n.Kids {
		if _, ok := group[k.Name]; !ok {
			names = append(names, k.Name)
		}
		group[k.Name] = append(group[k.Name], k)
	}
	for _, nm := range names {
		for _, k := range group[nm] {
			b.WriteString(canon(k))
		}
	}
	b.WriteString("</>")
	return b.String()
}

type XMLCase struct {
	Root   *XNode      `json:"root"`
	Prolog [][2]string `json:"prolog,omitempty"` // processing instructions (target, text) and directives ("!", text) before the root
}

func genProlog(t *rapid.T) [][2]string {
	var out [][2]string
	if rapid.IntRange(0, 2).Draw(t, "xmldecl") == 0 {
		out = append(out, [2]string{"xml", `version="1.0" encoding="UTF-8"`})
	}
	seen := map[string]bool{}
	for i := rapid.IntRange(0, 2).Draw(t, "npi"); i > 0; i-- {
		tg := rapid.SampledFrom([]string{"page", "php-settings", "_under", "pp", "coolioo", "p_p", "style-sheet"}).Draw(t, "pit")
		if seen[tg] {
			continue
		}
		seen[tg] = true
		out = append(out, [2]string{tg, rapid.SampledFrom([]string{`a="1"`, `render="fast" x="y"`, "plain words"}).Draw(t, "pii")})
	}
	if rapid.IntRange(0, 3).Draw(t, "dir") == 0 {
		out = append(out, [2]string{"!", "DOCTYPE " + rapid.SampledFrom([]string{"root", "config system \"blah\""}).Draw(t, "dirt")})
	}
	return out
}

// prologOf reads the processing instructions and directives of yq's output with encoding/xml.
func prologOf(text string) ([][2]string, error) {
	dec := xml.NewDecoder(strings.NewReader(text))
	var out [][2]string
	for {
		tok, err := dec.Token()
		if err == io.EOF {
			return out, nil
		}
		if err != nil {
			return nil, err
		}
		switch x := tok.(type) {
		case xml.ProcInst:
			out = append(out, [2]string{x.Target, string(x.Inst)})
		case xml.Directive:
			out = append(out, [2]string{"!", string(x)})
		}
	}
}

func checkXML(c XMLCase) hx.Verdict {
	var b strings.Builder
	truth := model.NewMap()
	for _, p := range c.Prolog {
		if p[0] == "!" {
			b.WriteString("<!" + p[1] + ">\n")
			truth.Set("+directive", model.NewStr(p[1]))
		} else {
			b.WriteString("<?" + p[0] + " " + p[1] + "?>\n")
			truth.Set("+p_"+p[0], model.NewStr(p[1]))
		}
	}
	c.Root.text(&b)
	text := b.String()
	if _, err := parseXTree(text); err != nil {
		return hx.Disc("generator_unsound")
	}
	truth.Set(c.Root.Name, c.Root.value())
	got, o := runJSON(".", text, "xml")
	if v := crash(o, text); v != nil {
		return *v
	}
	if got == nil {
		return hx.Bad("", "XML rejected (%s): %s", o.Err, text)
	}
	if !looseEqual(got, truth) {
		return hx.Bad("", "XML decode: got %s, the documented mapping gives %s: %s", got.JSON(), truth.JSON(), text)
	}
	enc := hx.Run(".", truth.JSON(), hx.Opts{In: "json", Out: "xml"})
	if v := crash(enc, truth.JSON()); v != nil {
		return *v
	}
	if enc.Err != "" {
		return hx.Bad("", "XML encode failed (%s): %s", enc.Err, truth.JSON())
	}
	// an XML declaration is the first thing in the document (XML 1.0, 2.8: nothing, not even white space, before it)
	if i := strings.Index(enc.Out, "<?xml "); i > 0 {
		return hx.Bad("", "XML output has %q before the XML declaration: %q", enc.Out[:i], enc.Out)
	}
	back, err := parseXTree(enc.Out)
	if err != nil {
		return hx.Bad("", "XML output is not well-formed (%v): %q from %s", err, enc.Out, truth.JSON())
	}
	if canon(back) != canon(c.Root) {
		return hx.Bad("", "XML encode: encoding/xml reads %s from yq's output, expected %s (output %q)", canon(back), canon(c.Root), enc.Out)
	}
	if len(c.Prolog) > 0 {
		pl, err := prologOf(enc.Out)
		if err != nil || fmt.Sprint(pl) != fmt.Sprint(c.Prolog) {
			return hx.Bad("", "XML encode: processing instructions / directives read back as %q (err %v), expected %q (output %q)", pl, err, c.Prolog, enc.Out)
		}
	}
	rt, o2 := runPair("to_xml | from_xml", truth.JSON())
	if v := crash(o2, "to_xml|from_xml"); v != nil {
		return *v
	}
	if rt == nil || !looseEqual(rt, truth) {
		return hx.Bad("", "to_xml | from_xml is not the identity: %s from %s (err %q)", js(rt), truth.JSON(), o2.Err)
	}
	repeated := strings.Contains(truth.JSON(), "[")
	return hx.OK(repeated || strings.ContainsAny(text, "&\"'") || strings.Count(text, "<") > 6, text, "xml")
}

// ---------------------------------------------------------------------------
// TOML (decode)

type TOMLCase struct {
	Text string `json:"text"`
	Gen  string `json:"gen"`
}

func genTomlValue(t *rapid.T, depth int) interface{} {
	k := rapid.IntRange(0, 7).Draw(t, "tk")
	if depth <= 0 {
		k %= 4
	}
	switch k {
	case 0:
		return int64(rapid.IntRange(-1000, 100000).Draw(t, "ti"))
	case 1:
		return genStr(t, "ts")
	case 2:
		return rapid.Bool().Draw(t, "tb")
	case 3:
		return rapid.SampledFrom([]float64{0.5, 1.5, -2.25, 1e10, 3.0}).Draw(t, "tf")
	case 4:
		var a []interface{}
		for i := rapid.IntRange(0, 3).Draw(t, "tan"); i > 0; i-- {
			a = append(a, int64(rapid.IntRange(0, 9).Draw(t, "tai")))
		}
		return a
	case 5:
		var a []map[string]interface{}
		for i := rapid.IntRange(1, 3).Draw(t, "tmn"); i > 0; i-- {
			a = append(a, genTomlTable(t, depth-1))
		}
		return a
	default:
		return genTomlTable(t, depth-1)
	}
}

func genTomlTable(t *rapid.T, depth int) map[string]interface{} {
	m := map[string]interface{}{}
	for i := rapid.IntRange(1, 3).Draw(t, "tn"); i > 0; i-- {
		k := rapid.SampledFrom([]string{"a", "b", "name", "key one", "ünï", "k-1", "x_y", "1", "a.b", "q\"q", "a*", "b?"}).Draw(t, "tkey")
		m[k] = genTomlValue(t, depth)
	}
	return m
}

func genTOML(t *rapid.T) TOMLCase {
	if rapid.IntRange(0, 2).Draw(t, "hand") == 0 {
		lines := []string{}
		for i := rapid.IntRange(1, 6).Draw(t, "hn"); i > 0; i-- {
			lines = append(lines, rapid.SampledFrom([]string{
				"a = 1", "b.c = 2", "b.d.e = \"x\"", "hex = 0xFF", "oct = 0o17", "bin = 0b101", "us = 1_000", "f = 1e3", "neg = -0.5", "s = 'lit\\eral'", "m = \"\"\"\nmulti\nline\"\"\"", "arr = [1, 2, 3]", "nested = [[1, 2], [3]]",
				"inline = {x = 1, y = {z = 2}}", "[t]", "k = true", "[t.sub]", "q = \"v\"", "[[aot]]", "n = 1", "[[aot]]", "n = 2", "[[aot.inner]]", "z = 9", "\"quoted key\" = 1", "empty = []", "mixed = [\"a\", \"b\"]",
				"d = 1979-05-27", "lt = 07:32:00", "ldt = 1979-05-27T07:32:00", "odt = 1979-05-27T00:32:00-07:00", "sdt = 1979-05-27 07:32:00Z", "pos = +3", "fu = 6.0_1", "hu = 0xdead_beef", "[t.sub.deep]", "[u]", "[[t.list]]", "[t.list.in]", "tbl = [{a = 1}, {a = 2, b = [1]}]", "\"a*\" = 1", "ab = 2", "'b?' = 3", "bc = 4", "it = { b.c = 1, b.d = 2 }", "it2 = {x.y = 1, x.z = {w = 2}, \"q r\" = 3}", "arr2 = [{p.q = 1, p.r = 2}, {p.q = 3}]", "it3 = {a.b.c = 1, a.b.d = 2, a.e = 3}", "esc = \"tab\\there \\u00e9 \\\"q\\\"\"",
			}).Draw(t, "hl"))
		}
		// keys must not repeat within a table: let BurntSushi decide validity (invalid documents are discarded)
		return TOMLCase{Text: strings.Join(lines, "\n") + "\n", Gen: "hand"}
	}
	var buf bytes.Buffer
	if err := toml.NewEncoder(&buf).Encode(genTomlTable(t, 2)); err != nil {
		return TOMLCase{Text: "a = 1\n", Gen: "fallback"}
	}
	return TOMLCase{Text: buf.String(), Gen: "burntsushi"}
}

func tomlToModel(x interface{}) *model.Value {
	switch v := x.(type) {
	case map[string]interface{}:
		m := model.NewMap()
		var ks []string
		for k := range v {
			ks = append(ks, k)
		}
		sort.Strings(ks)
		for _, k := range ks {
			m.Set(k, tomlToModel(v[k]))
		}
		return m
	case []map[string]interface{}:
		s := model.NewSeq()
		for _, e := range v {
			s.Elem = append(s.Elem, tomlToModel(e))
		}
		return s
	case []interface{}:
		s := model.NewSeq()
		for _, e := range v {
			s.Elem = append(s.Elem, tomlToModel(e))
		}
		return s
	case int64:
		return model.NewInt(v)
	case float64:
		return model.NewFloat(v)
	case bool:
		return model.NewBool(v)
	case string:
		return model.NewStr(v)
	}
	return model.NewStr(timeMark)
}

const timeMark = "\x00time"

var timeTexts = map[string]bool{"1979-05-27": true, "07:32:00": true, "1979-05-27T07:32:00": true, "1979-05-27T00:32:00-07:00": true, "1979-05-27 07:32:00Z": true}

func markTimes(v *model.Value) {
	v.Walk(func(x *model.Value) {
		if x.K == model.Str && timeTexts[x.S] {
			x.S = timeMark
		}
	})
}

func checkTOML(c TOMLCase) hx.Verdict {
	var ref map[string]interface{}
	if _, err := toml.Decode(c.Text, &ref); err != nil {
		return hx.Disc("invalid_toml")
	}
	truth := tomlToModel(ref)
	got, o := runJSON(".", c.Text, "toml")
	if v := crash(o, c.Text); v != nil {
		return *v
	}
	if len(ref) == 0 {
		return hx.Unspec("empty_document")
	}
	if got == nil {
		return hx.Bad("", "valid TOML rejected (%s): %q", o.Err, c.Text)
	}
	markTimes(got)
	if !model.EqualUnordered(hx.SortKeys(got), truth) {
		return hx.Bad("", "TOML decode: got %s, BurntSushi/toml reads %s from %q", got.JSON(), truth.JSON(), c.Text)
	}
	nt := strings.Contains(c.Text, "[[") || strings.Contains(c.Text, "{") || strings.Count(c.Text, ".") > 1 || strings.Contains(c.Text, "\\")
	return hx.OK(nt, c.Text, "toml:"+c.Gen)
}

// ---------------------------------------------------------------------------
// Lua

type LuaCase struct {
	Doc string `json:"doc"`
}

var luaCtl = []string{"esc\x1b[0m", "\x0e\x0f", "del\x7f", "\x1f", "bel\x07", "\x10\x11\x12", "cr\rlf", "ff\x0cvt\x0b", "\x19\x1a", "\x1c\x1d\x1e\x08"}

func genLuaDoc(t *rapid.T, depth int) *model.Value {
	k := rapid.IntRange(0, 8).Draw(t, "lk")
	if depth <= 0 {
		k %= 5
	}
	switch {
	case k <= 1:
		if rapid.IntRange(0, 5).Draw(t, "lctl") == 0 {
			return model.NewStr(rapid.SampledFrom(luaCtl).Draw(t, "lc"))
		}
		return model.NewStr(genStr(t, "ls"))
	case k == 2:
		return model.NewInt(int64(rapid.IntRange(-100, 100000).Draw(t, "li")))
	case k == 3:
		return model.NewBool(rapid.Bool().Draw(t, "lb"))
	case k == 4:
		return model.NewFloat(rapid.SampledFrom([]float64{0.5, -1.25, 1e3 + 0.5}).Draw(t, "lf"))
	case k <= 6:
		m := model.NewMap()
		for i := rapid.IntRange(1, 3).Draw(t, "lmn"); i > 0; i-- {
			key := rapid.SampledFrom([]string{"a", "b", "key", "with space", "end", "nil", "x-y", "ünï", "q\"q", "_ok", "9x", "]]"}).Draw(t, "lkey")
			if _, dup := m.Get(key); !dup {
				m.Set(key, genLuaDoc(t, depth-1))
			}
		}
		return m
	default:
		s := model.NewSeq()
		for i := rapid.IntRange(1, 3).Draw(t, "lsn"); i > 0; i-- {
			s.Elem = append(s.Elem, genLuaDoc(t, depth-1))
		}
		return s
	}
}

func luaQuote(s string) string {
	var b strings.Builder
	b.WriteByte('"')
	for i := 0; i < len(s); i++ {
		ch := s[i]
		switch {
		case ch == '"' || ch == '\\':
			b.WriteByte('\\')
			b.WriteByte(ch)
		case ch == '\n':
			b.WriteString(`\n`)
		case ch < 0x20 || ch == 0x7f:
			fmt.Fprintf(&b, `\%03d`, ch)
		default:
			b.WriteByte(ch)
		}
	}
	b.WriteByte('"')
	return b.String()
}

func luaText(v *model.Value) string {
	switch v.K {
	case model.Str:
		return luaQuote(v.S)
	case model.Map:
		var p []string
		for i, k := range v.Keys {
			p = append(p, "["+luaQuote(k)+"] = "+luaText(v.Vals[i]))
		}
		return "{" + strings.Join(p, ", ") + "}"
	case model.Seq:
		var p []string
		for _, e := range v.Elem {
			p = append(p, luaText(e))
		}
		return "{" + strings.Join(p, ", ") + "}"
	case model.Null:
		return "nil"
	}
	return textOf(v)
}

func luaToModel(lv lua.LValue) *model.Value {
	switch v := lv.(type) {
	case lua.LString:
		return model.NewStr(string(v))
	case lua.LNumber:
		f := float64(v)
		if f == float64(int64(f)) {
			return model.NewInt(int64(f))
		}
		return model.NewFloat(f)
	case lua.LBool:
		return model.NewBool(bool(v))
	case *lua.LTable:
		n := v.Len()
		cnt := 0
		v.ForEach(func(_, _ lua.LValue) { cnt++ })
		if n > 0 && n == cnt {
			s := model.NewSeq()
			for i := 1; i <= n; i++ {
				s.Elem = append(s.Elem, luaToModel(v.RawGetInt(i)))
			}
			return s
		}
		m := model.NewMap()
		var ks []string
		vals := map[string]lua.LValue{}
		v.ForEach(func(k, x lua.LValue) {
			ks = append(ks, k.String())
			vals[k.String()] = x
		})
		sort.Strings(ks)
		for _, k := range ks {
			m.Set(k, luaToModel(vals[k]))
		}
		return m
	}
	return model.NewNull()
}

func checkLua(c LuaCase) hx.Verdict {
	doc, err := model.ParseJSON(c.Doc)
	if err != nil {
		return hx.Disc("bad_doc")
	}
	text := "return " + luaText(doc) + ";\n"
	got, o := runJSON(".", text, "lua")
	if v := crash(o, text); v != nil {
		return *v
	}
	if got == nil {
		return hx.Bad("", "Lua table rejected (%s): %s", o.Err, text)
	}
	if !model.EqualUnordered(got, doc) {
		return hx.Bad("", "Lua decode: got %s, the table denotes %s: %s", got.JSON(), doc.JSON(), text)
	}
	enc := hx.Run(".", c.Doc, hx.Opts{In: "json", Out: "lua"})
	if v := crash(enc, c.Doc); v != nil {
		return *v
	}
	if enc.Err != "" {
		return hx.Bad("", "Lua encode failed (%s): %s", enc.Err, c.Doc)
	}
	L := lua.NewState(lua.Options{SkipOpenLibs: true})
	defer L.Close()
	if err := L.DoString(enc.Out); err != nil {
		return hx.Bad("", "yq's Lua output does not run (%v): %q from %s", err, enc.Out, c.Doc)
	}
	back := luaToModel(L.Get(-1))
	if !model.EqualUnordered(hx.SortKeys(back), hx.SortKeys(doc)) {
		return hx.Bad("", "Lua encode: executing yq's output gives %s, expected %s (output %q)", back.JSON(), doc.JSON(), enc.Out)
	}
	return hx.OK(doc.Depth() >= 2 || strings.ContainsAny(c.Doc, "\\]"), c.Doc, "lua")
}

// ---------------------------------------------------------------------------
// base64 / URI / in-expression pairs

type StrCase struct {
	S string `json:"s"`
}

func checkStr(c StrCase) hx.Verdict {
	s := c.S
	doc := model.NewMap().Set("v", model.NewStr(s)).JSON()
	for _, x := range []struct {
		name, enc, dec string
		stdEnc         func(string) string
		stdDec         func(string) (string, error)
	}{
		{"base64", "@base64", "@base64d", func(s string) string { return base64.StdEncoding.EncodeToString([]byte(s)) }, func(s string) (string, error) {
			b, err := base64.StdEncoding.DecodeString(s)
			return string(b), err
		}},
		{"uri", "@uri", "@urid", url.QueryEscape, url.QueryUnescape},
	} {
		e, o := runJSON(".v | "+x.enc, doc, "json")
		if v := crash(o, x.enc); v != nil {
			return *v
		}
		if e == nil || e.K != model.Str {
			return hx.Bad("", "%s of %q failed (%s)", x.enc, s, o.Err)
		}
		back, err := x.stdDec(e.S)
		if err != nil || back != s {
			return hx.Bad("", "%s of %q is %q, which the standard library decodes to %q (err %v)", x.enc, s, e.S, back, err)
		}
		d, o2 := runJSON(".v | "+x.dec, model.NewMap().Set("v", model.NewStr(x.stdEnc(s))).JSON(), "json")
		if v := crash(o2, x.dec); v != nil {
			return *v
		}
		if d == nil || textOf(d) != s && !(s == "" && d.K == model.Null) {
			return hx.Bad("", "%s of %q (the standard encoding of %q) gives %v (err %q)", x.dec, x.stdEnc(s), s, js(d), o2.Err)
		}
	}
	return hx.OK(strings.ContainsAny(s, " +/=%&?#") || len(s) > 3, s, "base64_uri")
}

type PairCase struct {
	Doc string `json:"doc"`
}

func checkPairs(c PairCase) hx.Verdict {
	doc, err := model.ParseJSON(c.Doc)
	if err != nil {
		return hx.Disc("bad_doc")
	}
	for _, p := range []string{"to_json | from_json", "to_yaml | from_yaml", "@json | from_json", "to_json(0) | @jsond", "@yaml | @yamld"} {
		got, o := runJSON(p, c.Doc, "json")
		if v := crash(o, p); v != nil {
			return *v
		}
		if got == nil || !model.EqualTol(got, doc, 1e-15) {
			return hx.Bad("", "`%s` is not the identity: %s from %s (err %q)", p, js(got), c.Doc, o.Err)
		}
	}
	return hx.OK(doc.Depth() >= 2, c.Doc, "json_yaml_pairs")
}

func TestProp(t *testing.T) {
	hx.RunProperty(t,
		hx.NewSub("props", 2500, 20000, genProps, checkProps),
		hx.NewSub("csv", 2500, 20000, genCSV, checkCSV),
		hx.NewSub("xml", 2500, 20000, func(t *rapid.T) XMLCase {
			c := XMLCase{Root: genX(t, rapid.IntRange(0, 3).Draw(t, "depth"))}
			if rapid.IntRange(0, 2).Draw(t, "prolog") == 0 {
				c.Prolog = genProlog(t)
			}
			return c
		}, checkXML),
		hx.NewSub("toml", 2500, 20000, genTOML, checkTOML),
		hx.NewSub("lua", 2500, 20000, func(t *rapid.T) LuaCase {
			return LuaCase{Doc: genLuaDoc(t, rapid.IntRange(0, 3).Draw(t, "depth")).JSON()}
		}, checkLua),
		hx.NewSub("strings", 2000, 15000, func(t *rapid.T) StrCase {
			return StrCase{S: strings.ToValidUTF8(rapid.OneOf(rapid.Just(""), rapid.SampledFrom(hostile), rapid.StringN(0, 20, 60)).Draw(t, "s"), "?")}
		}, checkStr),
		hx.NewSub("props_tree", 2000, 15000, genPropsTree, checkPropsTree),
		hx.NewSub("csv_raw", 2000, 15000, genCSVRaw, checkCSVRaw),
		hx.NewSub("lua_yaml", 2000, 15000, genLuaYAML, checkLuaYAML),
		hx.NewSub("lua_keys", 2500, 20000, genLuaKeys, checkLuaKeys),
		hx.NewSub("base64_file", 1500, 10000, genB64File, checkB64File),
		hx.NewSub("toml_floats", 40, 200, func(t *rapid.T) TomlFloatCase {
			return TomlFloatCase{Spelling: rapid.SampledFrom([]string{"nan", "+nan", "-nan", "inf", "+inf", "-inf", "1e0", "-0.0", "6.626e-34", "5e+22"}).Draw(t, "sp")}
		}, checkTomlFloat),
		hx.NewSub("xml_prefs", 2000, 15000, genXMLPrefs, checkXMLPrefs),
		hx.NewSub("pairs", 1500, 10000, func(t *rapid.T) PairCase { return PairCase{Doc: genLuaDoc(t, 3).JSON()} }, checkPairs),
	)
}

var _ = ref.Print
