package c14

import (
	"fmt"
	"strings"

	"pgregory.net/rapid"
	"verif/hx"
	"verif/model"
)

// Sub "lua_keys": Lua tables whose keys are not only strings and positions - explicit integer keys (0, negative,
// continuing or not continuing the positional run), fractional and boolean keys - in every order of writing.
// Truth (Lua reference manual 2.5.7 / 3.4.9 as yq documents its reading): a table whose keys are exactly 1..n is a
// sequence, every other table is a map of all its keys.

type LuaKeyEntry struct {
	Kind string `json:"kind"` // pos | int | str | float | bool
	Key  string `json:"key"`  // Lua text of the key (none for pos)
	Val  string `json:"val"`  // a word
}

type LuaKeysCase struct {
	Entries []LuaKeyEntry `json:"entries"`
	Nested  bool          `json:"nested"` // the table is the value of a key of an outer table
}

func genLuaKeys(t *rapid.T) LuaKeysCase {
	var c LuaKeysCase
	npos := rapid.IntRange(0, 3).Draw(t, "npos")
	used := map[string]bool{}
	n := rapid.IntRange(1, 5).Draw(t, "n")
	pos := 0
	for i := 0; i < n+npos; i++ {
		e := LuaKeyEntry{Val: rapid.SampledFrom([]string{"zero", "one", "two", "x", "y", "origin"}).Draw(t, "val")}
		if pos < npos && rapid.IntRange(0, 1).Draw(t, "ispos") == 0 {
			e.Kind = "pos"
			pos++
			c.Entries = append(c.Entries, e)
			continue
		}
		switch rapid.IntRange(0, 7).Draw(t, "kk") {
		case 0, 1, 2:
			e.Kind = "int"
			// never an index the positional entries occupy
			k := rapid.SampledFrom([]int{0, 0, -1, npos + 1, npos + 2, npos + 3, npos + 5, 100}).Draw(t, "ik")
			e.Key = fmt.Sprint(k)
		case 3:
			e.Kind, e.Key = "float", rapid.SampledFrom([]string{"1.5", "0.5", "-2.25"}).Draw(t, "fk")
		case 4:
			e.Kind, e.Key = "bool", rapid.SampledFrom([]string{"true", "false"}).Draw(t, "bk")
		default:
			e.Kind, e.Key = "str", rapid.SampledFrom([]string{"name", "a", "b", "key", "n0"}).Draw(t, "sk")
		}
		if used[e.Key] {
			continue
		}
		used[e.Key] = true
		c.Entries = append(c.Entries, e)
	}
	// the positional entries that were not placed yet
	for ; pos < npos; pos++ {
		c.Entries = append(c.Entries, LuaKeyEntry{Kind: "pos", Val: "p"})
	}
	c.Nested = rapid.IntRange(0, 2).Draw(t, "nested") == 0
	return c
}

func (c LuaKeysCase) text() (string, *model.Value) {
	var parts []string
	keys := map[string]string{} // JSON key -> value
	var order []string
	pos := 0
	ints := map[int]bool{}
	onlyInts := true
	for _, e := range c.Entries {
		switch e.Kind {
		case "pos":
			pos++
			parts = append(parts, luaQuote(e.Val))
			keys[fmt.Sprint(pos)] = e.Val
			order = append(order, fmt.Sprint(pos))
			ints[pos] = true
		case "str":
			parts = append(parts, "["+luaQuote(e.Key)+"] = "+luaQuote(e.Val))
			keys[e.Key] = e.Val
			order = append(order, e.Key)
			onlyInts = false
		default:
			parts = append(parts, "["+e.Key+"] = "+luaQuote(e.Val))
			keys[e.Key] = e.Val
			order = append(order, e.Key)
			if e.Kind == "int" {
				var k int
				fmt.Sscan(e.Key, &k)
				ints[k] = true
			} else {
				onlyInts = false
			}
		}
	}
	var truth *model.Value
	isSeq := onlyInts && len(ints) > 0
	for i := 1; isSeq && i <= len(ints); i++ {
		isSeq = ints[i]
	}
	if isSeq {
		truth = model.NewSeq()
		for i := 1; i <= len(ints); i++ {
			truth.Elem = append(truth.Elem, model.NewStr(keys[fmt.Sprint(i)]))
		}
	} else {
		truth = model.NewMap()
		for _, k := range order {
			truth.Set(k, model.NewStr(keys[k]))
		}
	}
	tbl := "{" + strings.Join(parts, ", ") + "}"
	if c.Nested {
		outer := model.NewMap()
		outer.Set("t", truth)
		outer.Set("z", model.NewStr("end"))
		return "return {t = " + tbl + ", z = \"end\"}\n", outer
	}
	return "return " + tbl + "\n", truth
}

func checkLuaKeys(c LuaKeysCase) hx.Verdict {
	if len(c.Entries) == 0 {
		return hx.Disc("empty")
	}
	text, truth := c.text()
	got, o := runJSON(".", text, "lua")
	if v := crash(o, text); v != nil {
		return *v
	}
	if got == nil {
		return hx.Bad("", "Lua table rejected (%s): %s", o.Err, text)
	}
	if !model.EqualUnordered(got, truth) {
		return hx.Bad("", "Lua decode: got %s, the table denotes %s: %s", got.JSON(), truth.JSON(), text)
	}
	kinds := map[string]bool{}
	for _, e := range c.Entries {
		kinds[e.Kind] = true
	}
	labels := []string{"lua_keys"}
	for k := range map[string]bool{"pos": true, "int": true, "float": true, "bool": true, "str": true} {
		if kinds[k] {
			labels = append(labels, "key:"+k)
		}
	}
	return hx.OK(len(kinds) >= 2, text, labels...)
}
