package c14

import (
	"encoding/base64"
	"strings"

	"pgregory.net/rapid"
	"verif/hx"
	"verif/model"
)

// Sub "base64_file": a whole input in base64 as files carry it - ending in a line end, wrapped into lines (RFC 2045:
// line ends are not part of the encoding), with or without the padding - and TOML's special float spellings.

type B64FileCase struct {
	S      string `json:"s"`
	Layout string `json:"layout"` // bare | nl | crlf | wrap | wrap_crlf
	NoPad  bool   `json:"no_pad"`
}

type TomlFloatCase struct {
	Spelling string `json:"spelling"`
}

func genB64File(t *rapid.T) B64FileCase {
	s := rapid.OneOf(rapid.SampledFrom(words), rapid.SampledFrom(hostile), rapid.StringN(1, 30, 90), rapid.StringN(60, 200, 400)).Draw(t, "s")
	return B64FileCase{S: strings.ToValidUTF8(s, "?"), Layout: rapid.SampledFrom([]string{"bare", "nl", "nl", "crlf", "wrap", "wrap_crlf"}).Draw(t, "layout"), NoPad: rapid.IntRange(0, 3).Draw(t, "nopad") == 0}
}

func checkB64File(c B64FileCase) hx.Verdict {
	if c.S == "" {
		return hx.Disc("empty")
	}
	enc := base64.StdEncoding.EncodeToString([]byte(c.S))
	if c.NoPad {
		enc = strings.TrimRight(enc, "=")
	}
	nl := "\n"
	if strings.Contains(c.Layout, "crlf") {
		nl = "\r\n"
	}
	text := enc
	switch c.Layout {
	case "nl", "crlf":
		text = enc + nl
	case "wrap", "wrap_crlf":
		var b strings.Builder
		for i := 0; i < len(enc); i += 76 {
			j := i + 76
			if j > len(enc) {
				j = len(enc)
			}
			b.WriteString(enc[i:j] + nl)
		}
		text = b.String()
	}
	got, o := runJSON(".", text, "base64")
	if v := crash(o, text); v != nil {
		return *v
	}
	if got == nil {
		return hx.Bad("", "base64 input rejected (%s): %q, the encoding of %q", o.Err, text, c.S)
	}
	if got.K != model.Str || got.S != c.S {
		return hx.Bad("", "base64 input %q decodes to %s, it is the encoding of %q", text, got.JSON(), c.S)
	}
	// and back: -o base64 of the string is text the standard library decodes to it
	out := hx.Run(".", model.NewStr(c.S).JSON(), hx.Opts{In: "json", Out: "base64"})
	if v := crash(out, c.S); v != nil {
		return *v
	}
	if out.Err != "" {
		return hx.Bad("", "-o base64 of %q failed: %s", c.S, out.Err)
	}
	back, err := base64.StdEncoding.DecodeString(strings.TrimRight(out.Out, "\r\n"))
	if err != nil || string(back) != c.S {
		return hx.Bad("", "-o base64 of %q printed %q, which decodes to %q (%v)", c.S, out.Out, back, err)
	}
	return hx.OK(c.Layout != "bare" || c.NoPad, text, "base64_file", "layout:"+c.Layout)
}

func checkTomlFloat(c TomlFloatCase) hx.Verdict {
	text := "k = " + c.Spelling + "\nz = 1\n"
	o := hx.Run(".k | tag", text, hx.Opts{In: "toml", Out: "yaml"})
	if v := crash(o, text); v != nil {
		return *v
	}
	if o.Err != "" {
		return hx.Bad("", "valid TOML rejected (%s): %q", o.Err, text)
	}
	if strings.TrimSpace(o.Out) != "!!float" {
		return hx.Bad("", "TOML float %s is read with tag %q", c.Spelling, strings.TrimSpace(o.Out))
	}
	if strings.Contains(c.Spelling, "inf") {
		s := hx.Run(".k < 0", text, hx.Opts{In: "toml", Out: "yaml"})
		want := "false"
		if strings.HasPrefix(c.Spelling, "-") {
			want = "true"
		}
		if s.Err != "" || strings.TrimSpace(s.Out) != want {
			return hx.Bad("", "TOML float %s: `.k < 0` gives %q (%s), expected %s", c.Spelling, strings.TrimSpace(s.Out), s.Err, want)
		}
	}
	return hx.OK(true, c.Spelling, "toml_special_float")
}
