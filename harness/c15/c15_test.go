package c15

import (
	"fmt"
	yaml "gopkg.in/yaml.v3"
	"math"
	"math/big"
	"sort"
	"strings"
	"testing"

	"pgregory.net/rapid"
	"verif/hx"
	"verif/model"
)

const rule = "cases: (a) sequences (length 0-30) of maps {k: scalar, id: position} and of bare scalars drawn from pools built to collide (null spellings, booleans, 64-bit edge ints, hex/octal/underscore spellings, floats equal to ints, look-alike strings, duplicates) -> sort / sort_by(.k) must be a permutation, ordered under the reference preorder wherever it is defined, stable, idempotent; " +
	"(b) pairs and triples of pool scalars -> yq's own sort decisions must form a strict weak order (antisymmetric, transitive, equivalence transitive); (c) same-type pairs -> < <= > >= min max agree with the reference order; (d) maps -> sort_keys(..) permutes keys into code-point order and changes nothing else. " +
	"non-trivial = length >= 3 with >= 2 distinct order classes, or a tie group, or an alternate-spelling/extreme number; distinct by input text Sub multi: an ordering operator over 2-4 collections in one evaluation (`.[] | op`, a union of paths, eval-all over several documents) gives for each collection what it gives for that collection alone."

func TestMain(m *testing.M) {
	hx.Main(m, "C15", rule,
		"the reference preorder is the one in the statement: null < booleans (false < true) < other scalars; numbers by value; strings by code point; number-vs-string placement is judged only through the comparator laws",
		"int-vs-float pairs whose order depends on digits beyond float64 precision are not judged",
		"date-times and custom tags are not generated")
}

// Scalar is a pool element: YAML spelling plus ground truth.
type Scalar struct {
	Y   string `json:"y"`   // YAML spelling (flow-safe)
	Cls int    `json:"cls"` // 0 null, 1 bool, 2 number, 3 string
	B   bool   `json:"b,omitempty"`
	N   string `json:"n,omitempty"` // exact rational value as text ("inf", "-inf" allowed)
	F   bool   `json:"f,omitempty"` // spelled as a float
	S   string `json:"s,omitempty"`
}

func num(y, exact string, isFloat bool) Scalar { return Scalar{Y: y, Cls: 2, N: exact, F: isFloat} }
func str(s string) Scalar                      { return Scalar{Y: model.QuoteJSON(s), Cls: 3, S: s} }

var pool = []Scalar{
	{Y: "null", Cls: 0}, {Y: "~", Cls: 0},
	{Y: "true", Cls: 1, B: true}, {Y: "false", Cls: 1, B: false},
	// the other spellings YAML 1.2 reads as booleans / null
	{Y: "True", Cls: 1, B: true}, {Y: "TRUE", Cls: 1, B: true}, {Y: "False", Cls: 1, B: false}, {Y: "FALSE", Cls: 1, B: false}, {Y: "Null", Cls: 0},
	num("0", "0", false), num("1", "1", false), num("-1", "-1", false), num("2", "2", false), num("10", "10", false), num("9", "9", false), num("31", "31", false), num("1000", "1000", false),
	num("0x1F", "31", false), num("0o37", "31", false), num("0xA", "10", false), num("1_000", "1000", false), num("0x3E8", "1000", false),
	num("9223372036854775807", "9223372036854775807", false), num("-9223372036854775808", "-9223372036854775808", false), num("9223372036854775806", "9223372036854775806", false),
	num("9007199254740993", "9007199254740993", false), num("9007199254740992", "9007199254740992", false), num("-9007199254740993", "-9007199254740993", false),
	num("0x7FFFFFFFFFFFFFFF", "9223372036854775807", false), num("-0x8000000000000000", "-9223372036854775808", false), num("-0x10", "-16", false), num("-16", "-16", false), num("0b11111", "31", false), num("-0o20", "-16", false), num("2147483648", "2147483648", false), num("-2147483649", "-2147483649", false),
	num("1.0", "1", true), num("1e0", "1", true), num("1.5", "3/2", true), num("-1.5", "-3/2", true), num("0.5", "1/2", true), num("1e3", "1000", true), num("31.0", "31", true), num("2.5e3", "2500", true),
	num("0.1", "", true), num("0.30000000000000004", "", true), num("0.3", "", true), num("1e-7", "", true), num("-0.0", "0", true), num("9.5", "19/2", true), num("10.25", "41/4", true),
	num(".inf", "inf", true), num("-.inf", "-inf", true), num("1e300", "", true), num("-1e300", "", true),
	str(""), str("a"), str("b"), str("B"), str("abc"), str("ab"), str("10"), str("9"), str("1"), str("1.0"), str("1e0"), str("true"), str("null"), str("~"), str("0x1F"), str("é"), str("z"), str("日本"), str(" a"), str("a "), str("A"), str("aB"),
	// strings that read like RFC 3339 times: text order and time order differ (offsets)
	str("2021-01-01T10:00:00+05:00"), str("2021-01-01T06:00:00Z"), str("2021-01-01T05:00:00Z"), str("2021-01-01"),
}

func (s Scalar) rat() (*big.Rat, int) { // value, infinity sign
	switch s.N {
	case "inf":
		return nil, 1
	case "-inf":
		return nil, -1
	case "":
		f := new(big.Float)
		f.SetString(s.Y)
		r, _ := f.Rat(nil)
		// the value of a decimal float spelling is the float64 nearest to it
		fl, _ := new(big.Float).SetPrec(53).SetString(s.Y)
		f64, _ := fl.Float64()
		r = new(big.Rat).SetFloat64(f64)
		return r, 0
	}
	r, _ := new(big.Rat).SetString(s.N)
	return r, 0
}

// order returns (cmp, defined) under the statement's preorder.
func order(a, b Scalar) (int, bool) {
	if a.Cls == -1 || b.Cls == -1 {
		// an element whose key expression yields nothing: the statement orders values; whether
		// "no value" ties with null is not stated, everything else comes after it
		if a.Cls == b.Cls {
			return 0, true
		}
		if a.Cls == 0 || b.Cls == 0 {
			return 0, false
		}
		if a.Cls == -1 {
			return -1, true
		}
		return 1, true
	}
	if a.Cls != b.Cls {
		if a.Cls <= 1 || b.Cls <= 1 {
			if a.Cls < b.Cls {
				return -1, true
			}
			return 1, true
		}
		return 0, false // number vs string: not placed by the statement
	}
	switch a.Cls {
	case 0:
		return 0, true
	case 1:
		if a.B == b.B {
			return 0, true
		}
		if !a.B {
			return -1, true
		}
		return 1, true
	case 2:
		ra, ia := a.rat()
		rb, ib := b.rat()
		if ia != 0 || ib != 0 {
			if ia == ib {
				return 0, true
			}
			if ia < ib || (ia == 0 && ib > 0) || (ia < 0 && ib == 0) {
				return -1, true
			}
			return 1, true
		}
		c := ra.Cmp(rb)
		if a.F != b.F {
			// yq compares an int with a float through float64: leave pairs alone where that rounding decides
			fa, _ := ra.Float64()
			fb, _ := rb.Float64()
			fc := 0
			if fa < fb {
				fc = -1
			} else if fa > fb {
				fc = 1
			}
			if fc != c {
				return 0, false
			}
		}
		return c, true
	default:
		return strings.Compare(a.S, b.S), true
	}
}

// ---------------------------------------------------------------------------

type SeqCase struct {
	Elems  []Scalar `json:"elems"`
	Miss   []bool   `json:"miss"` // element i has no k at all
	Bare   bool     `json:"bare"` // bare scalars instead of maps
	Labels []string `json:"labels,omitempty"`
}

func genSeq(t *rapid.T) SeqCase {
	var c SeqCase
	n := rapid.IntRange(0, 30).Draw(t, "n")
	if rapid.IntRange(0, 3).Draw(t, "short") > 0 {
		n = rapid.IntRange(0, 8).Draw(t, "n2")
	}
	// restrict to a sub-pool so that ties and near-ties are frequent
	sub := rapid.SliceOfN(rapid.SampledFrom(pool), 1, 8).Draw(t, "subpool")
	c.Bare = rapid.IntRange(0, 2).Draw(t, "bare") == 0
	for i := 0; i < n; i++ {
		c.Elems = append(c.Elems, rapid.SampledFrom(sub).Draw(t, "el"))
		c.Miss = append(c.Miss, !c.Bare && rapid.IntRange(0, 9).Draw(t, "miss") == 0)
	}
	return c
}

func (c SeqCase) yaml() string {
	var parts []string
	for i, e := range c.Elems {
		if c.Bare {
			parts = append(parts, e.Y)
		} else if c.Miss[i] {
			parts = append(parts, fmt.Sprintf("{id: %d}", i))
		} else {
			parts = append(parts, fmt.Sprintf("{k: %s, id: %d}", e.Y, i))
		}
	}
	return "[" + strings.Join(parts, ", ") + "]\n"
}

func (c SeqCase) key(i int) Scalar {
	if !c.Bare && c.Miss[i] {
		return Scalar{Y: "<absent>", Cls: -1}
	}
	return c.Elems[i]
}

func checkSeq(c SeqCase) hx.Verdict {
	doc := c.yaml()
	var ids []int
	if c.Bare {
		// observe the permutation through yaml output of spellings: attach ids by wrapping first
		// (to_entries gives {key: index, value: x}; sort_by(.value) uses the same comparator as sort)
		// and, separately, require `sort` itself to print the same spellings in the same order
		r, o := hx.JSONResults("to_entries | sort_by(.value) | map(.key)", doc, "yaml")
		if v := bad(o, doc); v != nil {
			return *v
		}
		if len(r) != 1 {
			return hx.Bad("", "expected one result: %v", r)
		}
		pv, _ := model.ParseJSON(r[0])
		for _, e := range pv.Elem {
			ids = append(ids, int(e.I.Int64()))
		}
		// sort itself, observed as YAML text
		y := hx.Run("sort", doc, hx.Opts{Out: "yaml"})
		if v := bad(y, doc); v != nil {
			return *v
		}
		var want []string
		for _, id := range ids {
			if id < 0 || id >= len(c.Elems) {
				return hx.Bad("", "index %d out of range in %v: %s", id, ids, doc)
			}
			want = append(want, c.Elems[id].Y)
		}
		got := strings.TrimSpace(y.Out)
		exp := "[" + strings.Join(want, ", ") + "]"
		if got != exp {
			return hx.Bad("", "`sort` printed %s but sort_by(.value) orders the same elements as %s: doc=%s", got, exp, doc)
		}
	} else {
		r, o := hx.JSONResults("sort_by(.k) | map(.id)", doc, "yaml")
		if v := bad(o, doc); v != nil {
			return *v
		}
		if len(r) != 1 {
			return hx.Bad("", "expected one result: %v", r)
		}
		pv, _ := model.ParseJSON(r[0])
		for _, e := range pv.Elem {
			ids = append(ids, int(e.I.Int64()))
		}
		// the key expression in its bracket spelling, and over a sequence that also holds null elements: the same
		// order, a permutation of the input, and the input left as it was (a key expression only reads)
		withNulls := "[null, " + strings.TrimSuffix(strings.TrimPrefix(strings.TrimSpace(doc), "["), "]") + ", null]\n"
		if len(c.Elems) == 0 {
			withNulls = "[null, null]\n"
		}
		for _, dd := range []string{doc, withNulls} {
			// (elements are observed as [tag, id]: JSON cannot carry .inf keys)
			const obs = " | map([tag, .id])"
			a, oa := hx.JSONResults("sort_by(.k)"+obs, dd, "yaml")
			b, ob := hx.JSONResults(`sort_by(.["k"])`+obs, dd, "yaml")
			if v := bad(oa, dd); v != nil {
				return *v
			}
			if v := bad(ob, dd); v != nil {
				return *v
			}
			if len(a) != 1 || len(b) != 1 || a[0] != b[0] {
				return hx.Bad("", "sort_by(.k) orders the elements as %v but sort_by(.[\"k\"]) as %v: doc=%s", a, b, dd)
			}
			before := hx.Run(".", dd, hx.Opts{})
			after := hx.Run(`sort_by(.["k"]) as $s | .`, dd, hx.Opts{})
			if before.OK() && after.OK() && before.Out != after.Out {
				return hx.Bad("", "sort_by(.[\"k\"]) changed its input: %q became %q", before.Out, after.Out)
			}
			in, oi := hx.JSONResults("."+obs, dd, "yaml")
			if oi.OK() && len(in) == 1 {
				iv, _ := model.ParseJSON(in[0])
				sv, _ := model.ParseJSON(b[0])
				if iv != nil && sv != nil {
					var x, y []string
					for _, e := range iv.Elem {
						x = append(x, e.JSON())
					}
					for _, e := range sv.Elem {
						y = append(y, e.JSON())
					}
					sort.Strings(x)
					sort.Strings(y)
					if strings.Join(x, "\x00") != strings.Join(y, "\x00") {
						return hx.Bad("", "sort_by(.[\"k\"]) is not a permutation of its input: elements [tag, id] %s from %s: doc=%s", b[0], in[0], dd)
					}
				}
			}
		}
		// idempotence
		r2, o2 := hx.JSONResults("sort_by(.k) | sort_by(.k) | map(.id)", doc, "yaml")
		if v := bad(o2, doc); v != nil {
			return *v
		}
		if len(r2) != 1 || r2[0] != r[0] {
			return hx.Bad("", "sort_by is not idempotent: once %s twice %v: doc=%s", r[0], r2, doc)
		}
	}
	// 1. permutation
	if len(ids) != len(c.Elems) {
		return hx.Bad("", "sort changed the number of elements: %d -> %d: doc=%s", len(c.Elems), len(ids), doc)
	}
	seen := make([]bool, len(ids))
	for _, id := range ids {
		if id < 0 || id >= len(seen) || seen[id] {
			return hx.Bad("", "sort output is not a permutation of its input: ids %v: doc=%s", ids, doc)
		}
		seen[id] = true
	}
	// 2. ordered, 3. stable
	classes := map[string]bool{}
	tie := false
	for i := 0; i < len(ids); i++ {
		a := c.key(ids[i])
		classes[fmt.Sprint(a.Cls, a.B, a.N, a.S)] = true
		for j := i + 1; j < len(ids); j++ {
			b := c.key(ids[j])
			cmp, def := order(a, b)
			if !def {
				continue
			}
			if cmp > 0 {
				return hx.Bad("", "sort output is not ordered: %s (id %d) is placed before %s (id %d): ids %v doc=%s", a.Y, ids[i], b.Y, ids[j], ids, doc)
			}
			if cmp == 0 {
				tie = true
				if ids[i] > ids[j] {
					return hx.Bad("", "sort is not stable: equal keys %s (id %d) and %s (id %d) swapped: ids %v doc=%s", a.Y, ids[i], b.Y, ids[j], ids, doc)
				}
			}
		}
	}
	labels := []string{}
	if c.Bare {
		labels = append(labels, "bare")
	} else {
		labels = append(labels, "maps")
	}
	if tie {
		labels = append(labels, "tie_group")
	}
	if len(c.Elems) > 12 {
		labels = append(labels, "len>12")
	}
	alt := false
	for _, e := range c.Elems {
		if strings.ContainsAny(e.Y, "xo_") && e.Cls == 2 || len(e.N) > 15 {
			alt = true
		}
	}
	if alt {
		labels = append(labels, "alt_spelling_or_extreme")
	}
	nontrivial := (len(c.Elems) >= 3 && len(classes) >= 2) || tie || alt
	return hx.OK(nontrivial, doc, labels...)
}

func bad(o hx.Outcome, doc string) *hx.Verdict {
	if o.Crashed() {
		v := hx.Bad("panic-site:"+o.PanicSite, "panic %s on %s", o.Panic, doc)
		return &v
	}
	if o.Timeout {
		v := hx.Unspec("slow")
		return &v
	}
	if o.Err != "" {
		v := hx.Bad("", "sorting failed (%s): doc=%s", o.Err, doc)
		return &v
	}
	return nil
}

// ---------------------------------------------------------------------------
// comparator laws on yq's own decisions

type LawCase struct {
	X, Y, Z Scalar
}

// lt(a,b): sorting [b, a] swaps them, i.e. yq says a is strictly before b.
func lt(a, b Scalar) (bool, *hx.Verdict) {
	doc := fmt.Sprintf("[{k: %s, id: 0}, {k: %s, id: 1}]\n", b.Y, a.Y)
	r, o := hx.JSONResults("sort_by(.k) | map(.id)", doc, "yaml")
	if v := bad(o, doc); v != nil {
		return false, v
	}
	if len(r) != 1 {
		v := hx.Bad("", "expected one result for %s", doc)
		return false, &v
	}
	switch r[0] {
	case "[1,0]":
		return true, nil
	case "[0,1]":
		return false, nil
	}
	v := hx.Bad("", "sorting two elements gave %s: %s", r[0], doc)
	return false, &v
}

func checkLaws(c LawCase) hx.Verdict {
	x, y, z := c.X, c.Y, c.Z
	rel := map[string]bool{}
	for _, p := range [][2]Scalar{{x, y}, {y, x}, {y, z}, {z, y}, {x, z}, {z, x}} {
		b, v := lt(p[0], p[1])
		if v != nil {
			return *v
		}
		rel[p[0].Y+"\x00"+p[1].Y] = b
	}
	L := func(a, b Scalar) bool { return rel[a.Y+"\x00"+b.Y] }
	E := func(a, b Scalar) bool { return !L(a, b) && !L(b, a) }
	for _, p := range [][2]Scalar{{x, y}, {y, z}, {x, z}} {
		if L(p[0], p[1]) && L(p[1], p[0]) {
			return hx.Bad("", "order is not antisymmetric: %s < %s and %s < %s", p[0].Y, p[1].Y, p[1].Y, p[0].Y)
		}
		// agreement with the reference where it is defined
		if cmp, def := order(p[0], p[1]); def {
			if (cmp < 0) != L(p[0], p[1]) || (cmp > 0) != L(p[1], p[0]) {
				return hx.Bad("", "sort orders %s and %s against the stated order (reference cmp %d; yq: lt=%v gt=%v)", p[0].Y, p[1].Y, cmp, L(p[0], p[1]), L(p[1], p[0]))
			}
		}
	}
	for _, t := range [][3]Scalar{{x, y, z}, {x, z, y}, {y, x, z}, {y, z, x}, {z, x, y}, {z, y, x}} {
		a, b, cc := t[0], t[1], t[2]
		if L(a, b) && L(b, cc) && !L(a, cc) {
			return hx.Bad("", "order is not transitive: %s < %s and %s < %s but not %s < %s", a.Y, b.Y, b.Y, cc.Y, a.Y, cc.Y)
		}
		if E(a, b) && E(b, cc) && !E(a, cc) {
			return hx.Bad("", "equivalence is not transitive: %s ~ %s and %s ~ %s but %s and %s are ordered", a.Y, b.Y, b.Y, cc.Y, a.Y, cc.Y)
		}
		if L(a, b) && E(b, cc) && !L(a, cc) {
			return hx.Bad("", "order is not compatible with equivalence: %s < %s, %s ~ %s, but not %s < %s", a.Y, b.Y, b.Y, cc.Y, a.Y, cc.Y)
		}
	}
	mixed := x.Cls != y.Cls || y.Cls != z.Cls
	lab := "same_class"
	if mixed {
		lab = "mixed_class"
	}
	return hx.OK(true, x.Y+"\x00"+y.Y+"\x00"+z.Y, lab)
}

// ---------------------------------------------------------------------------
// comparison operators, min, max

type CmpCase struct {
	A, B Scalar
	Rest []Scalar
}

func checkCmp(c CmpCase) hx.Verdict {
	cmp, def := order(c.A, c.B)
	if !def || c.A.Cls != c.B.Cls || c.A.Cls < 2 {
		return hx.Unspec("cross_type")
	}
	for _, s := range append([]Scalar{c.A, c.B}, c.Rest...) {
		if s.N == "inf" || s.N == "-inf" {
			return hx.Unspec("infinity")
		}
	}
	doc := fmt.Sprintf("[%s, %s]\n", c.A.Y, c.B.Y)
	r, o := hx.JSONResults("[.[0] < .[1], .[0] <= .[1], .[0] > .[1], .[0] >= .[1]]", doc, "yaml")
	if v := bad(o, doc); v != nil {
		return *v
	}
	want := fmt.Sprintf("[%v,%v,%v,%v]", cmp < 0, cmp <= 0, cmp > 0, cmp >= 0)
	if len(r) != 1 || r[0] != want {
		return hx.Bad("", "comparison operators disagree with the sort order: %s vs %s gives [<,<=,>,>=] = %v, expected %s", c.A.Y, c.B.Y, r, want)
	}
	// min / max over a same-type sequence
	all := append([]Scalar{c.A, c.B}, c.Rest...)
	var ys []string
	for _, s := range all {
		if s.Cls != c.A.Cls {
			return hx.OK(true, doc, "cmp_only")
		}
		if _, d := order(s, c.A); !d {
			return hx.OK(true, doc, "cmp_only")
		}
		ys = append(ys, s.Y)
	}
	sorted := append([]Scalar{}, all...)
	sort.SliceStable(sorted, func(i, j int) bool { c, _ := order(sorted[i], sorted[j]); return c < 0 })
	for i := 0; i+1 < len(sorted); i++ {
		for j := i + 1; j < len(sorted); j++ {
			if _, d := order(sorted[i], sorted[j]); !d {
				return hx.OK(true, doc, "cmp_only")
			}
		}
	}
	d2 := "[" + strings.Join(ys, ", ") + "]\n"
	y := hx.Run("[min, max]", d2, hx.Opts{Out: "yaml"})
	if v := bad(y, d2); v != nil {
		return *v
	}
	got := strings.TrimSpace(y.Out)
	// any element equal (under the order) to the extreme is acceptable; compare by value
	ok := false
	gv, gerr := hx.YAMLToModel(y.Out)
	val := func(s Scalar) *model.Value {
		v, err := hx.YAMLToModel(s.Y + "\n")
		if err != nil || len(v) != 1 {
			return model.NewNull()
		}
		return v[0]
	}
	if gerr == nil && len(gv) == 1 && gv[0].K == model.Seq && len(gv[0].Elem) == 2 {
		lo, hi := val(sorted[0]), val(sorted[len(sorted)-1])
		ok = lo.K == gv[0].Elem[0].K && hi.K == gv[0].Elem[1].K && model.Equal(gv[0].Elem[0], lo) && model.Equal(gv[0].Elem[1], hi)
		if lo.K != model.Str && !ok {
			ok = model.Equal(gv[0].Elem[0], lo) && model.Equal(gv[0].Elem[1], hi)
		}
	}
	if !ok {
		return hx.Bad("", "[min, max] of %s is %s, expected [%s, %s] (or elements equal to them)", strings.TrimSpace(d2), got, sorted[0].Y, sorted[len(sorted)-1].Y)
	}
	// the same sequence with nulls in it: null is the smallest value of the order, wherever it sits
	mid := len(ys) / 2
	withNull := append(append(append([]string{}, ys[:mid]...), "null"), ys[mid:]...)
	if len(ys)%2 == 0 {
		withNull = append(withNull, "~")
	}
	hi := val(sorted[len(sorted)-1])
	// (in the middle and at the end; at the very front; only at the end)
	for _, wn := range [][]string{withNull, append([]string{"null"}, ys...), append(append([]string{}, ys...), "~"), append(append([]string{"~", "null"}, ys...), "null")} {
		d3 := "[" + strings.Join(wn, ", ") + "]\n"
		y3 := hx.Run("[min, max]", d3, hx.Opts{Out: "yaml"})
		if v := bad(y3, d3); v != nil {
			return *v
		}
		gv3, gerr3 := hx.YAMLToModel(y3.Out)
		if gerr3 != nil || len(gv3) != 1 || gv3[0].K != model.Seq || len(gv3[0].Elem) != 2 || gv3[0].Elem[0].K != model.Null || !model.Equal(gv3[0].Elem[1], hi) {
			return hx.Bad("", "[min, max] of %s is %s, expected [null, %s]: null is the first value of the sort order", strings.TrimSpace(d3), strings.TrimSpace(y3.Out), sorted[len(sorted)-1].Y)
		}
	}
	return hx.OK(true, d2+doc, "cmp_min_max", "min_max_with_null")
}

// ---------------------------------------------------------------------------
// sort_keys

type KeysCase struct {
	Doc string `json:"doc"`
}

func genKeysDoc(t *rapid.T, depth int) *model.Value {
	if depth <= 0 || rapid.IntRange(0, 3).Draw(t, "leaf") == 0 {
		return model.NewInt(int64(rapid.IntRange(0, 99).Draw(t, "v")))
	}
	if rapid.IntRange(0, 3).Draw(t, "kind") == 0 {
		s := model.NewSeq()
		for i := rapid.IntRange(0, 3).Draw(t, "sn"); i > 0; i-- {
			s.Elem = append(s.Elem, genKeysDoc(t, depth-1))
		}
		return s
	}
	m := model.NewMap()
	for i := rapid.IntRange(0, 6).Draw(t, "mn"); i > 0; i-- {
		k := rapid.SampledFrom([]string{"a", "b", "ab", "B", "A", "a b", "10", "9", "é", "z", "", "aa", "a.b", "_", "日", "😀", "k1", "k10", "k2"}).Draw(t, "k")
		if _, dup := m.Get(k); !dup {
			m.Set(k, genKeysDoc(t, depth-1))
		}
	}
	return m
}

func sortedKeys(v *model.Value) *model.Value {
	switch v.K {
	case model.Seq:
		o := model.NewSeq()
		for _, e := range v.Elem {
			o.Elem = append(o.Elem, sortedKeys(e))
		}
		return o
	case model.Map:
		ks := append([]string{}, v.Keys...)
		sort.Strings(ks)
		o := model.NewMap()
		for _, k := range ks {
			x, _ := v.Get(k)
			o.Set(k, sortedKeys(x))
		}
		return o
	}
	return v
}

func checkKeys(c KeysCase) hx.Verdict {
	doc, err := model.ParseJSON(c.Doc)
	if err != nil {
		return hx.Disc("bad_doc")
	}
	r, o := hx.JSONResults("sort_keys(..)", c.Doc, "json")
	if v := bad(o, c.Doc); v != nil {
		return *v
	}
	if len(r) != 1 {
		return hx.Bad("", "expected one result")
	}
	got, _ := model.ParseJSON(r[0])
	want := sortedKeys(doc)
	if !model.Equal(got, want) {
		return hx.Bad("", "sort_keys(..) gave %s, expected %s: doc=%s", r[0], want.JSON(), c.Doc)
	}
	return hx.OK(doc.Size() > 4, c.Doc, "sort_keys")
}

// sort_keys over YAML maps whose keys read the same but differ in type (1 and "1"): every entry must survive
type YKeysCase struct {
	Keys []string `json:"keys"` // YAML spellings of the keys, values are their positions
}

var yamlKeyPool = []string{"1", "\"1\"", "true", "\"true\"", "~", "\"~\"", "1.0", "\"1.0\"", "null", "\"null\"", "b", "a", "0x1", "\"0x1\"", "z", "10", "\"10\"", "B"}

func checkYKeys(c YKeysCase) hx.Verdict {
	if len(c.Keys) == 0 {
		return hx.Disc("empty")
	}
	var b strings.Builder
	for i, k := range c.Keys {
		fmt.Fprintf(&b, "%s: %d\n", k, 1000+i)
	}
	o := hx.Run("sort_keys(.)", b.String(), hx.Opts{})
	if v := bad(o, b.String()); v != nil {
		return *v
	}
	entries := func(text string) ([]string, []string, bool) {
		nodes, err := hx.YAMLNodes(text)
		if err != nil || len(nodes) != 1 {
			return nil, nil, false
		}
		n := nodes[0]
		if n.Kind == yaml.DocumentNode && len(n.Content) == 1 {
			n = n.Content[0]
		}
		if n.Kind != yaml.MappingNode {
			return nil, nil, false
		}
		var es, ks []string
		for i := 0; i+1 < len(n.Content); i += 2 {
			es = append(es, n.Content[i].ShortTag()+" "+n.Content[i].Value+" = "+n.Content[i+1].Value)
			ks = append(ks, n.Content[i].Value)
		}
		return es, ks, true
	}
	in, _, ok1 := entries(b.String())
	out, outKeys, ok2 := entries(o.Out)
	if !ok1 {
		return hx.Disc("generator_unsound")
	}
	if !ok2 {
		return hx.Bad("", "sort_keys output is not a map: %q from %q", o.Out, b.String())
	}
	si, so := append([]string{}, in...), append([]string{}, out...)
	sort.Strings(si)
	sort.Strings(so)
	if strings.Join(si, "\n") != strings.Join(so, "\n") {
		return hx.Bad("", "sort_keys changed more than the key order: entries %q became %q (input %q, output %q)", in, out, b.String(), o.Out)
	}
	if !sort.StringsAreSorted(outKeys) {
		return hx.Bad("", "sort_keys left the keys unsorted: %q", outKeys)
	}
	return hx.OK(len(c.Keys) >= 3, b.String(), "sort_keys_yaml")
}

var _ = math.Inf

func TestProp(t *testing.T) {
	sc := rapid.SampledFrom(pool)
	hx.RunProperty(t,
		hx.NewSub("seq", 6000, 40000, genSeq, checkSeq),
		hx.NewSub("laws", 5000, 40000, func(t *rapid.T) LawCase {
			return LawCase{sc.Draw(t, "x"), sc.Draw(t, "y"), sc.Draw(t, "z")}
		}, checkLaws),
		hx.NewSub("cmp", 4000, 30000, func(t *rapid.T) CmpCase {
			a := sc.Draw(t, "a")
			var same []Scalar
			for _, p := range pool {
				if p.Cls == a.Cls {
					same = append(same, p)
				}
			}
			return CmpCase{A: a, B: rapid.SampledFrom(same).Draw(t, "b"), Rest: rapid.SliceOfN(rapid.SampledFrom(same), 0, 4).Draw(t, "rest")}
		}, checkCmp),
		hx.NewSub("multi", 3000, 30000, genMulti, checkMulti),
		hx.NewSub("sort_keys", 3000, 20000, func(t *rapid.T) KeysCase { return KeysCase{Doc: genKeysDoc(t, 3).JSON()} }, checkKeys),
		hx.NewSub("sort_keys_yaml", 1500, 10000, func(t *rapid.T) YKeysCase {
			return YKeysCase{Keys: rapid.SliceOfNDistinct(rapid.SampledFrom(yamlKeyPool), 1, 8, func(s string) string { return s }).Draw(t, "keys")}
		}, checkYKeys),
	)
}
