package c15

import (
	"fmt"
	"strings"

	"pgregory.net/rapid"
	"verif/hx"
)

// Sub "multi": an ordering operator applied to several collections in one evaluation (`.[] | sort`, a union of
// sequences, eval-all over several documents) orders each collection as it orders that collection alone. The result
// for a collection alone is what sub "seq" judges against the reference order; here it is the oracle.

type MultiCase struct {
	Seqs []SeqCase `json:"seqs"`
	Op   string    `json:"op"`
	Mode string    `json:"mode"` // splat | union | eval_all
}

var multiOps = []string{"sort", "sort_by(.k)", "sort_by(.k) | map(.id)", "sort_by(.id, .k)", "min", "max", "sort | reverse", "sort_keys(..)", "[.[] | .k] | sort", "sort_by(.k) | .[0]"}

func genMulti(t *rapid.T) MultiCase {
	// (a collecting `[...]` is left to the sequence modes: in eval-all mode it collects over all documents by design)
	c := MultiCase{Op: rapid.SampledFrom(multiOps).Draw(t, "op"), Mode: rapid.SampledFrom([]string{"splat", "splat", "union", "eval_all"}).Draw(t, "mode")}
	if c.Mode == "eval_all" && strings.Contains(c.Op, "[") {
		c.Mode = "splat"
	}
	bare := rapid.IntRange(0, 2).Draw(t, "bare") == 0
	for i := rapid.IntRange(2, 4).Draw(t, "nseqs"); i > 0; i-- {
		s := genSeq(t)
		s.Bare = bare
		if len(s.Elems) > 10 {
			s.Elems, s.Miss = s.Elems[:10], s.Miss[:10]
		}
		if bare {
			for j := range s.Miss {
				s.Miss[j] = false
			}
		}
		c.Seqs = append(c.Seqs, s)
	}
	return c
}

func checkMulti(c MultiCase) hx.Verdict {
	var alone []string
	var texts []string
	for _, s := range c.Seqs {
		txt := strings.TrimSpace(s.yaml())
		texts = append(texts, txt)
		r, o := hx.JSONResults(c.Op, txt+"\n", "yaml")
		if o.Crashed() {
			return hx.Bad("panic-site:"+o.PanicSite, "panic %s: %s on %s", o.Panic, c.Op, txt)
		}
		if o.Timeout {
			return hx.Unspec("slow")
		}
		if o.Err != "" {
			return hx.Unspec("operator_not_defined_on_some_collection") // e.g. .k of a bare scalar
		}
		if len(r) > 0 {
			alone = append(alone, strings.Join(r, "\n"))
		}
	}
	var expr, doc string
	opts := hx.Opts{Out: "json", IndentSet: true, Indent: 0}
	switch c.Mode {
	case "splat":
		doc = "[" + strings.Join(texts, ", ") + "]\n"
		expr = ".[] | " + c.Op
	case "union":
		doc = "{a: " + strings.Join(texts, ", b: ") + "}\n"
		if len(texts) != 2 {
			doc = "[" + strings.Join(texts, ", ") + "]\n"
			var parts []string
			for i := range texts {
				parts = append(parts, fmt.Sprintf(".[%d]", i))
			}
			expr = "(" + strings.Join(parts, ", ") + ") | " + c.Op
		} else {
			expr = "(.a, .b) | " + c.Op
		}
	case "eval_all":
		doc = strings.Join(texts, "\n---\n") + "\n"
		expr = c.Op
		opts.EvalAll = true
	}
	o := hx.Run(expr, doc, opts)
	if o.Crashed() {
		return hx.Bad("panic-site:"+o.PanicSite, "panic %s: %s on %s", o.Panic, expr, doc)
	}
	if o.Timeout {
		return hx.Unspec("slow")
	}
	if o.Err != "" {
		return hx.Bad("", "`%s` fails over several collections (%s) though it succeeds on each alone: doc=%s", expr, o.Err, doc)
	}
	got := strings.TrimSpace(o.Out)
	want := strings.TrimSpace(strings.Join(alone, "\n"))
	if got != want {
		return hx.Bad("", "`%s` over several collections does not give what `%s` gives on each of them alone (mode %s):\n together: %s\n alone:    %s\n doc=%s", expr, c.Op, c.Mode, strings.ReplaceAll(got, "\n", " | "), strings.ReplaceAll(want, "\n", " | "), doc)
	}
	n := 0
	for _, s := range c.Seqs {
		if len(s.Elems) >= 2 {
			n++
		}
	}
	return hx.OK(n >= 2, expr+doc, "mode:"+c.Mode, "op:"+c.Op)
}
