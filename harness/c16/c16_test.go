package c16

import (
	"fmt"
	"regexp"
	"sort"
	"strings"
	"testing"

	"pgregory.net/rapid"
	"verif/gen"
	"verif/hx"
	"verif/model"
	"verif/ref"
)

const rule = "case = (document, container-producing expression f: identity, sort, sort_by, reverse, unique, slices, map, filter, [..], +, -, flatten, group_by, pick, omit, with_entries, to_entries, two-fold compositions, or `.new = (f) | .new`). " +
	"oracle (behavioural): with C = value of f and pC = `f | path`, every node n of `f | ..` must report a path that has prefix pC and whose remainder, traversed in C by the harness, reaches n's value at n's preorder position; key = last path element; parent = the container one step up; keys of every container enumerate its children. " +
	"non-trivial = f is not the identity and C has >= 2 nodes below the root; distinct by (f, doc)"

func TestMain(m *testing.M) {
	hx.Main(m, "C16", rule,
		"nodes reached through aliases and map-key nodes (`...`) are not generated",
		"expected paths are computed by the harness from the JSON value of C (preorder, same order as `..`)")
}

type Case struct {
	Doc    string   `json:"doc"`
	F      string   `json:"f"`
	Assign bool     `json:"assign_back"`
	Label  []string `json:"label"`
}

func ip(i int) *int { return &i }

// an integer that is the value of an object member or an array element, with what follows it
var wholeNum = regexp.MustCompile(`[:\[,]-?\d{1,9}[,}\]]`)

func genCase(t *rapid.T) Case {
	doc := gen.JSONDoc(t, gen.DocOpts{Depth: 3, Width: 4, NoFloats: true, SimpleStr: true, Distinct: rapid.Bool().Draw(t, "distinct")})
	var labels []string
	paths, nodes := gen.ContainerPaths(doc)
	var pre *ref.E = &ref.E{Op: "self"}
	target := doc
	if len(paths) > 0 {
		i := rapid.IntRange(0, len(paths)-1).Draw(t, "at")
		pre, target = paths[i], nodes[i]
	}
	var f *ref.E
	extra := ""
	switch k := rapid.IntRange(0, 9).Draw(t, "fk"); {
	case k <= 5:
		f = gen.Derivation(t, target, &labels)
	case k == 6 && target.K == model.Map:
		labels = append(labels, "f:with_entries")
		f = &ref.E{Op: "with_entries", A: []*ref.E{{Op: "self"}}}
	case k == 7:
		labels = append(labels, "f:to_entries")
		f = &ref.E{Op: "to_entries"}
	case k == 8 && target.K == model.Seq:
		labels = append(labels, "f:group_by")
		f = &ref.E{Op: "group_by", A: []*ref.E{{Op: "self"}}}
	case k == 9 && target.K == model.Map && len(target.Keys) > 0:
		ks := target.Keys[:rapid.IntRange(1, len(target.Keys)).Draw(t, "nk")]
		var q []string
		for _, x := range ks {
			if gen.SafeStr(x) {
				q = append(q, ref.QuoteYq(x))
			}
		}
		op := rapid.SampledFrom([]string{"pick", "omit"}).Draw(t, "po")
		labels = append(labels, "f:"+op)
		extra = op + "([" + strings.Join(q, ", ") + "])"
		f = &ref.E{Op: "self"}
	default:
		f = gen.Derivation(t, target, &labels)
	}
	// deleting an element renumbers what follows it (here the indices are not stale: del keeps them true)
	if target.K == model.Seq && len(target.Elem) >= 2 && rapid.IntRange(0, 5).Draw(t, "delel") == 0 {
		labels = []string{"f:del_element"}
		f = &ref.E{Op: "self"}
		extra = fmt.Sprintf("del(.[%d])", rapid.IntRange(0, len(target.Elem)-2).Draw(t, "deli"))
	}
	// two containers of the document combined: + and * of maps (overlapping keys), + of sequences
	if rapid.IntRange(0, 5).Draw(t, "two") == 0 && len(paths) >= 2 {
		i := rapid.IntRange(0, len(paths)-1).Draw(t, "c1")
		j := rapid.IntRange(0, len(paths)-1).Draw(t, "c2")
		if nodes[i].K == nodes[j].K && paths[i].Op != "self" && paths[j].Op != "self" {
			op := "+"
			if nodes[i].K == model.Map && rapid.Bool().Draw(t, "mul") {
				op = "*"
			}
			labels = []string{"f:two_containers_" + op}
			pre = &ref.E{Op: "self"}
			f = &ref.E{Op: "bin", S: op, A: []*ref.E{paths[i], paths[j]}}
		}
	}
	e := gen.Pipe(pre, f)
	txt := ref.Print(e)
	if e.Op == "union" || e.Op == "bin" {
		txt = "(" + txt + ")"
	}
	if extra != "" {
		if txt == "." {
			txt = extra
		} else {
			txt += " | " + extra
		}
	}
	c := Case{Doc: doc.JSON(), F: txt, Label: labels}
	// JSON numbers in other spellings of the same whole number (2.0, 2e0): a node like any other
	if rapid.IntRange(0, 3).Draw(t, "floatspell") == 0 {
		n := 0
		c.Doc = wholeNum.ReplaceAllStringFunc(c.Doc, func(m string) string {
			n++
			if n%2 == 1 {
				return m[:len(m)-1] + rapid.SampledFrom([]string{".0", "e0", ".00"}).Draw(t, "fs") + m[len(m)-1:]
			}
			return m
		})
	}
	if rapid.IntRange(0, 4).Draw(t, "assign") == 0 && doc.K == model.Map && pre.Op != "self" {
		c.Assign = true
		c.Label = append(c.Label, "assign_back")
	}
	return c
}

type pv struct {
	path []string // expected path elements rendered as JSON scalars
	seq  []bool   // whether element i is a sequence index
	v    *model.Value
	par  *model.Value
}

func walk(v *model.Value, path []string, seq []bool, par *model.Value, out *[]pv) {
	*out = append(*out, pv{append([]string{}, path...), append([]bool{}, seq...), v, par})
	switch v.K {
	case model.Seq:
		for i, e := range v.Elem {
			walk(e, append(path, fmt.Sprint(i)), append(seq, true), v, out)
		}
	case model.Map:
		for i, e := range v.Vals {
			walk(e, append(path, model.QuoteJSON(v.Keys[i])), append(seq, false), v, out)
		}
	}
}

func pathElems(v *model.Value) ([]string, bool) {
	if v.K != model.Seq {
		return nil, false
	}
	var out []string
	for _, e := range v.Elem {
		if !e.IsScalar() {
			return nil, false
		}
		out = append(out, e.JSON())
	}
	return out, true
}

func evalOne(expr, doc string) (*model.Value, hx.Outcome) {
	r, o := hx.JSONResults(expr, doc, "json")
	if !o.OK() {
		return nil, o
	}
	if len(r) != 1 {
		o.Err = fmt.Sprintf("expected one result, got %d", len(r))
		return nil, o
	}
	v, err := model.ParseJSON(r[0])
	if err != nil {
		o.Err = "not json: " + err.Error()
		return nil, o
	}
	return v, o
}

func check(c Case) hx.Verdict {
	f := c.F
	root := f
	if c.Assign {
		root = ".zzz = (" + f + ") | .zzz"
	}
	C, o := evalOne(root, c.Doc)
	if o.Crashed() {
		return hx.Bad("panic-site:"+o.PanicSite, "panic %s: %s", o.Panic, root)
	}
	if C == nil {
		return hx.Unspec("f_fails")
	}
	if C.HasDupKeys() {
		return hx.Unspec("dup_keys")
	}
	pCv, o1 := evalOne(root+" | path", c.Doc)
	paths, o2 := evalOne(root+" | [.. | path]", c.Doc)
	keys, o3 := evalOne(root+" | [.. | [key]]", c.Doc)
	parents, o4 := evalOne(root+" | [.. | [parent]]", c.Doc)
	conts, o5 := evalOne(root+" | [.. | select(kind == \"map\" or kind == \"seq\") | keys]", c.Doc)
	for _, oo := range []hx.Outcome{o1, o2, o3, o4, o5} {
		if oo.Crashed() {
			return hx.Bad("panic-site:"+oo.PanicSite, "panic %s: %s", oo.Panic, root)
		}
		if !oo.OK() {
			return hx.Bad("", "path/key/parent query failed (%s) on the value of %s doc=%s", oo.Err, root, c.Doc)
		}
	}
	pC, ok := pathElems(pCv)
	if !ok {
		return hx.Bad("", "`%s | path` is not a list of scalars: %s", root, pCv.JSON())
	}
	if c.Assign {
		if len(pC) != 1 || pC[0] != `"zzz"` {
			return hx.Bad("", "path of the assigned value is %v, expected [\"zzz\"]: %s doc=%s", pC, root, c.Doc)
		}
	}
	var exp []pv
	walk(C, nil, nil, nil, &exp)
	if len(paths.Elem) != len(exp) || len(keys.Elem) != len(exp) || len(parents.Elem) != len(exp) {
		return hx.Bad("", "`..` over the value of %s yields %d paths / %d keys / %d parents for %d nodes: doc=%s", root, len(paths.Elem), len(keys.Elem), len(parents.Elem), len(exp), c.Doc)
	}
	stale := false
	bad := func(kind string, i int, got, want interface{}) hx.Verdict {
		return hx.Bad("", "%s of node %d is %v, expected %v (C=%s pC=%v): f=%s doc=%s", kind, i, got, want, C.JSON(), pC, root, c.Doc)
	}
	for i, e := range exp {
		p, ok := pathElems(paths.Elem[i])
		if !ok {
			return bad("path", i, paths.Elem[i].JSON(), "a list of scalars")
		}
		// prefix pC
		prefOK := len(p) >= len(pC)
		for j := 0; prefOK && j < len(pC); j++ {
			if p[j] != pC[j] {
				prefOK = false
			}
		}
		if !prefOK {
			// a child that still names its source container is the known stale-parent/index finding
			// only when the remainder (by length) still identifies the right node: otherwise plain violation
			if len(p) == 0 || len(e.path) == 0 {
				return bad("path prefix", i, p, pC)
			}
			stale = true
			continue
		}
		r := p[len(pC):]
		if len(r) != len(e.path) {
			return bad("path", i, p, append(append([]string{}, pC...), e.path...))
		}
		for j := range r {
			if r[j] != e.path[j] {
				if e.seq[j] {
					stale = true // an index element that differs: judged below as the known finding
				} else {
					return bad("path (map key element)", i, p, append(append([]string{}, pC...), e.path...))
				}
			}
		}
		// key
		k := keys.Elem[i]
		if len(e.path) > 0 {
			if len(k.Elem) != 1 {
				return bad("key", i, k.JSON(), e.path[len(e.path)-1])
			}
			if k.Elem[0].JSON() != e.path[len(e.path)-1] {
				if e.seq[len(e.seq)-1] {
					stale = true
				} else {
					return bad("key", i, k.JSON(), e.path[len(e.path)-1])
				}
			}
			// parent
			par := parents.Elem[i]
			if len(par.Elem) != 1 || !model.Equal(par.Elem[0], e.par) {
				return bad("parent", i, par.JSON(), e.par.JSON())
			}
		}
	}
	// key nodes (`...`): the key of a map entry sits where its value sits
	if kp, ok := evalOne(root+" | [... | select(is_key) | path]", c.Doc); ok.OK() && kp != nil {
		var want, got []string
		for _, e := range exp {
			if len(e.path) > 0 && !e.seq[len(e.seq)-1] {
				want = append(want, strings.Join(append(append([]string{}, pC...), e.path...), "/"))
			}
		}
		staleIdx := false
		for _, x := range kp.Elem {
			p, _ := pathElems(x)
			got = append(got, strings.Join(p, "/"))
		}
		sort.Strings(want)
		sort.Strings(got)
		if strings.Join(want, "\n") != strings.Join(got, "\n") {
			// index elements inside the path of a key fall under the stale-index finding; only a wrong map key element or prefix counts here
			for _, e := range exp {
				for _, sq := range e.seq {
					if sq {
						staleIdx = true
					}
				}
			}
			if !staleIdx {
				return hx.Bad("", "key nodes under the value of %s report paths %v, expected %v: doc=%s", root, got, want, c.Doc)
			}
			stale = true
		}
	} else if ok.Crashed() {
		return hx.Bad("panic-site:"+ok.PanicSite, "panic %s", ok.Panic)
	}
	// keys of containers
	ci := 0
	for _, e := range exp {
		if e.v.K != model.Map && e.v.K != model.Seq {
			continue
		}
		if ci >= len(conts.Elem) {
			return hx.Bad("", "fewer containers than expected in %s", root)
		}
		want := model.NewSeq()
		if e.v.K == model.Map {
			for _, k := range e.v.Keys {
				want.Elem = append(want.Elem, model.NewStr(k))
			}
		} else {
			for i := range e.v.Elem {
				want.Elem = append(want.Elem, model.NewInt(int64(i)))
			}
		}
		if !model.Equal(conts.Elem[ci], want) {
			return hx.Bad("", "keys of container %d is %s, expected %s: f=%s doc=%s", ci, conts.Elem[ci].JSON(), want.JSON(), root, c.Doc)
		}
		ci++
	}
	updates := false // f changes the document itself (a delete): the probes below are about derivations that only read
	for _, l := range c.Label {
		updates = updates || l == "f:del_element"
	}
	// (v) building the derived value must not disturb where the nodes of the document are
	if doc, err := model.ParseJSON(c.Doc); err == nil && !c.Assign && !updates {
		dp, o6 := evalOne("("+f+") as $c | [.. | path]", c.Doc)
		if o6.Crashed() {
			return hx.Bad("panic-site:"+o6.PanicSite, "panic %s", o6.Panic)
		}
		if o6.OK() {
			var dexp []pv
			walk(doc, nil, nil, nil, &dexp)
			if len(dp.Elem) != len(dexp) {
				return hx.Bad("", "after `(%s) as $c`, `..` over the document yields %d nodes, expected %d: doc=%s", f, len(dp.Elem), len(dexp), c.Doc)
			}
			for i, e := range dexp {
				got, _ := pathElems(dp.Elem[i])
				if strings.Join(got, "/") != strings.Join(e.path, "/") {
					return hx.Bad("", "after `(%s) as $c`, node %d of the document reports path %v, expected %v: doc=%s", f, i, got, e.path, c.Doc)
				}
			}
		}
	}
	// (vi) the same through key nodes (`...`) and after copying f into the document and deleting from the copy:
	// what the document's own nodes report must not depend on what was built from them
	if !c.Assign && !updates {
		for _, q := range []struct{ base, probe string }{
			{"[... | path]", "(" + f + ") as $c | [... | path]"},
			{"[.. | [key]]", "(" + f + ") as $c | [.. | [key]]"},
			{"[.. | path]", ".zzz = (" + f + ") | del(.zzz[0]) | del(.zzz) | [.. | path]"},
			{"[... | path]", ".zzz = [" + f + "] | del(.zzz) | [... | path]"},
		} {
			if strings.Contains(q.probe, ".zzz") && strings.HasPrefix(c.Doc, "[") {
				continue
			}
			b, ob := evalOne(q.base, c.Doc)
			g, og := evalOne(q.probe, c.Doc)
			if ob.Crashed() || og.Crashed() {
				return hx.Bad("panic-site:"+ob.PanicSite+og.PanicSite, "panic in %s", q.probe)
			}
			if ob.OK() && og.OK() && !model.Equal(b, g) {
				return hx.Bad("", "`%s` reports %s but the document alone (`%s`) reports %s: doc=%s", q.probe, g.JSON(), q.base, b.JSON(), c.Doc)
			}
		}
	}
	if stale {
		for _, l := range c.Label {
			if l == "f:del_element" {
				// del renumbers the elements it leaves: a wrong index after it is not the finding about rebuilt sequences
				return hx.Bad("", "after a delete the remaining elements report wrong indices: f=%s C=%s paths=%s keys=%s doc=%s", root, C.JSON(), paths.JSON(), keys.JSON(), c.Doc)
			}
		}
		return hx.Bad("deviant:stale-seq-index", "a re-parented sequence child reports the index (or parent path) it had in its source container: f=%s C=%s paths=%s doc=%s", root, C.JSON(), paths.JSON(), c.Doc)
	}
	nontrivial := len(exp) >= 3 && f != "."
	return hx.OK(nontrivial, root+"\x00"+c.Doc, c.Label...)
}

func TestProp(t *testing.T) {
	hx.RunProperty(t, hx.NewSub("paths", 6000, 40000, genCase, check))
}
