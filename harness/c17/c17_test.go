package c17

import (
	"fmt"
	"os"
	"path/filepath"
	"regexp"
	"sort"
	"strings"
	"testing"
	"time"

	"pgregory.net/rapid"
	"verif/hx"
	"verif/model"
)

const rule = "(a) strings over the NUL-free range weighted toward shell metacharacters (quotes, backslash, $, backtick, !, glob characters, ~, #, ;, &, |, <, >, parentheses, braces, blanks, newlines, CR, other controls, DEL, non-ASCII, leading dashes, the empty string, runs of quotes, canary payloads that would create a file if executed): the text `@sh` produces is given to /bin/sh (dash) as `set -- WORD; printf` and must yield exactly one word equal to the string, with no canary file and empty stderr. " +
	"(b) documents nesting such strings as values and as keys (maps and sequences, depth <= 3): the `-o=shell` output must pass `sh -n`, split into as many assignments as the document has scalars, every NAME must match [A-Za-z_][A-Za-z0-9_]*, and sourcing it in an empty environment must define exactly those names with exactly the scalar texts (last assignment of a name wins), print nothing and create no canary. " +
	"non-trivial = the string / some key or value contains a character outside [A-Za-z0-9_@%+=:,./-]; distinct by input"

func TestMain(m *testing.M) {
	hx.Main(m, "C17", rule,
		"NUL cannot occur in a shell word and is not generated; the variable `_` is ignored (the shell rewrites it)",
		"/bin/sh is dash on this image")
}

var meta = []string{"'", "\"", "\\", "$", "`", "!", "*", "?", "[", "]", "~", "#", ";", "&", "|", "<", ">", "(", ")", "{", "}", " ", "\t", "\n", "\r", "\x01", "\x1b", "\x7f", "é", "日本", "😀", "-", "--", "=", "%", "^", ",", ".", "/", ":", "@", "+", "a", "Z", "0", "_", "''", "'\"'", "$HOME", "${PATH}", "$(id)", "`id`", "\\n", "\\'", "$'x'", "a b", "-n", "-e", "*.*", "~root", "{a,b}", " ", " ", "；", "＄（）", "⑴"}

func genString(t *rapid.T, canary string) string {
	switch rapid.IntRange(0, 12).Draw(t, "sk") {
	case 0:
		return ""
	case 1:
		return rapid.SampledFrom([]string{"$(touch " + canary + ")", "`touch " + canary + "`", "'; touch " + canary + "; '", "\"; touch " + canary + " #", "x\ntouch " + canary + "\n", "$(touch " + canary + ")'$(touch " + canary + ")'", "';touch " + canary + ";'"}).Draw(t, "payload")
	case 2:
		return rapid.StringN(0, 12, 40).Draw(t, "any")
	default:
		n := rapid.IntRange(1, 8).Draw(t, "n")
		var b strings.Builder
		for i := 0; i < n; i++ {
			b.WriteString(rapid.SampledFrom(meta).Draw(t, "m"))
		}
		return b.String()
	}
}

func clean(s string) string {
	s = strings.ReplaceAll(s, "\x00", "")
	return strings.ToValidUTF8(s, "?")
}

var safe = regexp.MustCompile(`^[A-Za-z0-9_@%+=:,./-]*$`)

func workdir() string {
	d := filepath.Join(hx.WorkDir(), "c17")
	_ = os.MkdirAll(d, 0o755)
	return d
}

// ---------------------------------------------------------------------------

type ShCase struct {
	S string `json:"s"`
}

func checkSh(c ShCase) hx.Verdict {
	s := c.S
	if strings.ContainsRune(s, 0) {
		return hx.Disc("nul")
	}
	dir := workdir()
	canary := filepath.Join(dir, "CANARY")
	_ = os.Remove(canary)
	doc := model.NewMap().Set("v", model.NewStr(s)).JSON()
	o := hx.Run(".v | @sh", doc, hx.Opts{In: "json"})
	if o.Crashed() {
		return hx.Bad("panic-site:"+o.PanicSite, "panic %s on %q", o.Panic, s)
	}
	if o.Err != "" {
		return hx.Bad("", "@sh failed on a string (%s): %q", o.Err, s)
	}
	word := strings.TrimSuffix(o.Out, "\n")
	script := "set -- " + word + "\nprintf '%s\\000%s\\000' \"$#\" \"$1\"\n"
	r := hx.RunCmd(dir, "/bin/sh", []string{"-c", script}, nil, nil, 30*time.Second)
	want := "1\x00" + s + "\x00"
	_, cerr := os.Stat(canary)
	if cerr == nil {
		_ = os.Remove(canary)
		return hx.Bad("", "COMMAND EXECUTION: expanding the @sh output of %q ran a command (word %q)", s, word)
	}
	if r.Stdout != want || r.Stderr != "" || r.Exit != 0 {
		sig := ""
		if s == "" {
			sig = "input-shape:sh-empty-string"
		}
		return hx.Bad(sig, "@sh of %q is %q, which the shell expands to %q (stderr %q, exit %d); expected exactly one word equal to the string", s, word, r.Stdout, r.Stderr, r.Exit)
	}
	labels := []string{"sh"}
	if strings.Contains(s, "'") {
		labels = append(labels, "has_quote")
	}
	if strings.Contains(s, "\n") {
		labels = append(labels, "has_newline")
	}
	if strings.Contains(s, "touch ") {
		labels = append(labels, "canary")
	}
	return hx.OK(!safe.MatchString(s), s, labels...)
}

// ---------------------------------------------------------------------------

type VarsCase struct {
	Doc string `json:"doc"`
}

func genDoc(t *rapid.T, depth int, canary string) *model.Value {
	k := rapid.IntRange(0, 9).Draw(t, "k")
	if depth <= 0 {
		k %= 5
	}
	switch {
	case k <= 2:
		return model.NewStr(clean(genString(t, canary)))
	case k == 3:
		return model.NewInt(int64(rapid.IntRange(-5, 500).Draw(t, "i")))
	case k == 4:
		return rapid.SampledFrom([]*model.Value{model.NewBool(true), model.NewBool(false), model.NewNull()}).Draw(t, "kw")
	case k <= 7:
		m := model.NewMap()
		for i := rapid.IntRange(0, 4).Draw(t, "mn"); i > 0; i-- {
			var key string
			if rapid.Bool().Draw(t, "plainkey") {
				key = rapid.SampledFrom([]string{"a", "b", "key", "A_1", "1x", "x-y", "a.b", "a b", "é", "_", "", "0", "<<", "<<", "*", "a*", "?", "~", "null", "true", "+@a", "+content"}).Draw(t, "pk")
			} else {
				key = clean(genString(t, canary))
			}
			if _, dup := m.Get(key); dup {
				continue
			}
			m.Set(key, genDoc(t, depth-1, canary))
		}
		return m
	default:
		s := model.NewSeq()
		for i := rapid.IntRange(0, 3).Draw(t, "sn"); i > 0; i-- {
			s.Elem = append(s.Elem, genDoc(t, depth-1, canary))
		}
		return s
	}
}

func scalarTexts(v *model.Value, out *[]string) {
	switch v.K {
	case model.Map:
		for _, x := range v.Vals {
			scalarTexts(x, out)
		}
	case model.Seq:
		for _, x := range v.Elem {
			scalarTexts(x, out)
		}
	case model.Str:
		*out = append(*out, v.S)
	case model.Null:
		*out = append(*out, "null")
	default:
		*out = append(*out, v.JSON())
	}
}

// splitAssignments cuts the output at newlines that are outside quotes.
func splitAssignments(s string) []string {
	var out []string
	var cur strings.Builder
	state := byte(0)
	for i := 0; i < len(s); i++ {
		ch := s[i]
		switch state {
		case 0:
			if ch == '\'' || ch == '"' {
				state = ch
			}
			if ch == '\n' {
				out = append(out, cur.String())
				cur.Reset()
				continue
			}
		default:
			if ch == state {
				state = 0
			}
		}
		cur.WriteByte(ch)
	}
	if cur.Len() > 0 {
		out = append(out, cur.String())
	}
	return out
}

var nameRe = regexp.MustCompile(`^[A-Za-z_][A-Za-z0-9_]*$`)

func envOf(s string) map[string]string {
	m := map[string]string{}
	for _, kv := range strings.Split(s, "\x00") {
		if i := strings.IndexByte(kv, '='); i > 0 {
			m[kv[:i]] = kv[i+1:]
		}
	}
	return m
}

func checkVars(c VarsCase) hx.Verdict {
	doc, err := model.ParseJSON(c.Doc)
	if err != nil {
		return hx.Disc("bad_doc")
	}
	dir := workdir()
	canary := filepath.Join(dir, "CANARY")
	_ = os.Remove(canary)
	o := hx.Run(".", c.Doc, hx.Opts{In: "json", Out: "shell"})
	if o.Crashed() {
		return hx.Bad("panic-site:"+o.PanicSite, "panic %s on %s", o.Panic, c.Doc)
	}
	if o.Err != "" {
		return hx.Bad("", "-o=shell failed (%s) on %s", o.Err, c.Doc)
	}
	var texts []string
	scalarTexts(doc, &texts)
	lines := splitAssignments(o.Out)
	if len(lines) != len(texts) {
		return hx.Bad("", "the document has %d scalars but the output has %d assignments: doc=%s output=%q", len(texts), len(lines), c.Doc, o.Out)
	}
	want := map[string]string{}
	for i, l := range lines {
		eq := strings.IndexByte(l, '=')
		if eq <= 0 || !nameRe.MatchString(l[:eq]) {
			return hx.Bad("", "assignment %d has no valid NAME: %q (doc=%s)", i, l, c.Doc)
		}
		want[l[:eq]] = texts[i]
	}
	out := filepath.Join(dir, "out.sh")
	if err := os.WriteFile(out, []byte(o.Out), 0o644); err != nil {
		return hx.Disc("write")
	}
	syn := hx.RunCmd(dir, "/bin/sh", []string{"-n", out}, nil, nil, 30*time.Second)
	if syn.Exit != 0 {
		return hx.Bad("", "`sh -n` rejects the output (%q): doc=%s output=%q", syn.Stderr, c.Doc, o.Out)
	}
	base := hx.RunCmd(dir, "/usr/bin/env", []string{"-i", "/bin/sh", "-c", "set -a; exec /usr/bin/env -0"}, nil, nil, 30*time.Second)
	src := hx.RunCmd(dir, "/usr/bin/env", []string{"-i", "/bin/sh", "-c", "set -a; . ./out.sh; exec /usr/bin/env -0"}, nil, nil, 30*time.Second)
	if _, cerr := os.Stat(canary); cerr == nil {
		_ = os.Remove(canary)
		return hx.Bad("", "COMMAND EXECUTION: sourcing the -o=shell output ran a command: doc=%s output=%q", c.Doc, o.Out)
	}
	if src.Exit != 0 || src.Stderr != "" {
		return hx.Bad("", "sourcing the output failed (exit %d, stderr %q): doc=%s output=%q", src.Exit, src.Stderr, c.Doc, o.Out)
	}
	be, se := envOf(base.Stdout), envOf(src.Stdout)
	got := map[string]string{}
	for k, v := range se {
		if k == "_" {
			continue
		}
		if bv, ok := be[k]; !ok || bv != v {
			got[k] = v
		}
	}
	delete(want, "_")
	var names []string
	for k := range want {
		names = append(names, k)
	}
	sort.Strings(names)
	for _, k := range names {
		g, ok := got[k]
		if !ok {
			if bv, inBase := be[k]; inBase && bv == want[k] {
				continue
			}
			return hx.Bad("", "variable %s is not defined after sourcing: doc=%s output=%q", k, c.Doc, o.Out)
		}
		if g != want[k] {
			return hx.Bad("", "variable %s expands to %q, expected %q: doc=%s output=%q", k, g, want[k], c.Doc, o.Out)
		}
	}
	for k := range got {
		if _, ok := want[k]; !ok {
			return hx.Bad("", "sourcing defines %s=%q which no assignment names: doc=%s output=%q", k, got[k], c.Doc, o.Out)
		}
	}
	hostile := false
	doc.Walk(func(x *model.Value) {
		if x.K == model.Str && !safe.MatchString(x.S) {
			hostile = true
		}
		for _, k := range x.Keys {
			if !safe.MatchString(k) {
				hostile = true
			}
		}
	})
	return hx.OK(hostile, c.Doc, "shellvars", fmt.Sprintf("scalars:%d", min(len(texts), 5)))
}

func min(a, b int) int {
	if a < b {
		return a
	}
	return b
}

func TestProp(t *testing.T) {
	can := filepath.Join(workdir(), "CANARY")
	hx.RunProperty(t,
		hx.NewSub("sh", 1500, 12000, func(t *rapid.T) ShCase { return ShCase{S: clean(genString(t, can))} }, checkSh),
		hx.NewSub("shellvars", 500, 4000, func(t *rapid.T) VarsCase {
			d := genDoc(t, rapid.IntRange(0, 3).Draw(t, "depth"), can)
			return VarsCase{Doc: d.JSON()}
		}, checkVars),
		hx.NewSub("yaml_values", 400, 3000, genY, checkY),
	)
}
