package c17

import (
	"fmt"
	"os"
	"path/filepath"
	"strconv"
	"strings"
	"time"

	"pgregory.net/rapid"
	"verif/hx"
)

// Sub "yaml_values": the values come from a YAML document and are not always what they look like - a scalar whose
// explicit tag says number or boolean while its text is a payload, an alias of an anchored payload. `-o=shell` of the
// document, sourced by /bin/sh, defines each variable as exactly the text; `@sh` of each value is one word equal to it.

type YVal struct {
	Name string `json:"name"`
	Tag  string `json:"tag,omitempty"` // explicit tag in front of the (double quoted) text
	Text string `json:"text"`
	Ref  bool   `json:"ref,omitempty"` // the value is written as an alias of an anchored entry holding Text
}

type YCase struct {
	Vals []YVal `json:"vals"`
}

func genY(t *rapid.T) YCase {
	can := filepath.Join(workdir(), "CANARY")
	var c YCase
	for i := rapid.IntRange(1, 4).Draw(t, "n"); i > 0; i-- {
		v := YVal{Name: fmt.Sprintf("v%d", len(c.Vals)), Text: clean(genString(t, can))}
		if strings.ContainsAny(v.Text, "\x00") || v.Text == "" {
			v.Text = "80 443; touch " + can
		}
		switch rapid.IntRange(0, 3).Draw(t, "yk") {
		case 0:
			v.Tag = rapid.SampledFrom([]string{"!!int", "!!float", "!!bool", "!!null", "!custom"}).Draw(t, "tag")
		case 1:
			v.Ref = true
		}
		c.Vals = append(c.Vals, v)
	}
	return c
}

func checkY(c YCase) hx.Verdict {
	dir := workdir()
	canary := filepath.Join(dir, "CANARY")
	_ = os.Remove(canary)
	var y strings.Builder
	for _, v := range c.Vals {
		switch {
		case v.Ref:
			fmt.Fprintf(&y, "src_%s: &a_%s %s\n%s: *a_%s\n", v.Name, v.Name, strconv.Quote(v.Text), v.Name, v.Name)
		case v.Tag != "":
			fmt.Fprintf(&y, "%s: %s %s\n", v.Name, v.Tag, strconv.Quote(v.Text))
		default:
			fmt.Fprintf(&y, "%s: %s\n", v.Name, strconv.Quote(v.Text))
		}
	}
	doc := y.String()
	for _, v := range c.Vals {
		if strings.ContainsAny(v.Text, "\r") || !isPrintableForYAML(v.Text) {
			return hx.Disc("text_not_expressible_in_a_quoted_yaml_scalar")
		}
	}
	// -o=shell, sourced
	o := hx.Run(".", doc, hx.Opts{Out: "shell"})
	if o.Crashed() {
		return hx.Bad("panic-site:"+o.PanicSite, "panic %s on %q", o.Panic, doc)
	}
	if o.Err != "" {
		return hx.Unspec("shell_output_refused")
	}
	script := "set -a\n" + o.Out + "\nexec env -0\n"
	r := hx.RunCmd(dir, "/bin/sh", []string{"-c", script}, nil, []string{"PATH=/usr/bin:/bin"}, 30*time.Second)
	if _, err := os.Stat(canary); err == nil {
		_ = os.Remove(canary)
		return hx.Bad("", "COMMAND EXECUTION: sourcing the -o=shell output ran a command: doc=%q output=%q", doc, o.Out)
	}
	env := envOf(r.Stdout)
	for _, v := range c.Vals {
		if v.Tag == "!!null" {
			continue // a null prints as an empty assignment
		}
		if got, ok := env[v.Name]; !ok || got != v.Text {
			return hx.Bad("", "after sourcing the -o=shell output %s is %q (defined: %v), the document says %q: doc=%q output=%q stderr=%q", v.Name, got, ok, v.Text, doc, o.Out, r.Stderr)
		}
	}
	// @sh of every value
	for _, v := range c.Vals {
		if v.Tag == "!!null" {
			continue
		}
		w := hx.Run("."+v.Name+" | @sh", doc, hx.Opts{})
		if w.Crashed() {
			return hx.Bad("panic-site:"+w.PanicSite, "panic %s on %q", w.Panic, doc)
		}
		if w.Err != "" {
			return hx.Unspec("sh_refused")
		}
		word := strings.TrimSuffix(w.Out, "\n")
		rs := hx.RunCmd(dir, "/bin/sh", []string{"-c", "set -- " + word + "\nprintf '%s\\000%s\\000' \"$#\" \"$1\"\n"}, nil, nil, 30*time.Second)
		if _, err := os.Stat(canary); err == nil {
			_ = os.Remove(canary)
			return hx.Bad("", "COMMAND EXECUTION: expanding `.%s | @sh` ran a command: doc=%q word=%q", v.Name, doc, word)
		}
		if rs.Stdout != "1\x00"+v.Text+"\x00" {
			return hx.Bad("", "`.%s | @sh` gives %q, which the shell expands to %q; the document says %q: doc=%q", v.Name, word, rs.Stdout, v.Text, doc)
		}
	}
	tagged, refs := 0, 0
	for _, v := range c.Vals {
		if v.Tag != "" {
			tagged++
		}
		if v.Ref {
			refs++
		}
	}
	return hx.OK(tagged+refs > 0, doc, fmt.Sprintf("tagged:%v", tagged > 0), fmt.Sprintf("alias:%v", refs > 0))
}

// isPrintableForYAML: strconv.Quote spells everything else with escapes YAML's double quoted style shares (\n, \t, \", \\,
// \xNN, \uNNNN); \a \b \f \v are shared too
func isPrintableForYAML(s string) bool {
	for _, r := range s {
		if r == 0x7f || r == 0xfffd {
			return false
		}
	}
	return true
}
