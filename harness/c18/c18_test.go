package c18

import (
	"bufio"
	"bytes"
	"container/list"
	"encoding/json"
	"fmt"
	"os"
	"path/filepath"
	"regexp"
	"sort"
	"strings"
	"sync"
	"testing"
	"time"

	"github.com/mikefarah/yq/v4/pkg/yqlib"
	"pgregory.net/rapid"
	"verif/hx"
)

const rule = "histories: a generated sequence of steps over a fixed pool of expressions x documents x output formats is executed inside one process, each step sharing some library object with earlier steps (the global parser always; a parsed tree, a decoder, an encoder when the step says so; failed parses and parse-only steps in between), and after every step the bytes (or the failure) must equal what a pristine yq process prints for that (expression, document, flags), which is memoised from the binary built from the same tree; the same pair is also run twice in pristine processes with different GOMAXPROCS. schedules: 2-8 goroutines execute such steps at the same time on evaluators, decoders, encoders and documents of their own, in a test binary built with -race; every result must equal the pristine result and the race detector's log must stay empty. " +
	"non-trivial = a history with at least 4 evaluations in which a pair is evaluated after a different pair on a shared object, or a concurrent round of at least 2 goroutines; distinct by the step list"

func TestMain(m *testing.M) {
	hx.Main(m, "C18", rule,
		"now, shuffle, random and the environment are outside the statement: env / strenv / envsubst are evaluated under one fixed environment only",
		"one Printer is not reused across evaluations (its separator state is its job, C10)",
		"interleavings are sampled by the Go scheduler under the race detector, not enumerated")
}

// ---------------------------------------------------------------------------
// pool

var docs = []string{
	"a: 1\nb: [3, 1, 2]\nc: {x: hello, y: world}\nd: \"str\"\n",
	"# head\na: &anc\n  k: v # line\nb: *anc\nlist:\n  - name: z\n    n: 2\n  - name: a\n    n: 1\n",
	"- 3\n- 1\n- 2\n- 10\n",
	"a: x\n---\na: y\nextra: [1, 2]\n---\na: z\n",
	"people:\n  - {name: bob, age: 30, tags: [a, b]}\n  - {name: al, age: 25, tags: [c]}\n  - {name: cy, age: 30, tags: []}\ndate: 2021-05-06T10:11:12Z\ntext: \"a,b;c d\"\n",
	"{}\n",
	"s: 'single'\nd: \"double\"\nf: >\n  folded text\n  here\nl: |\n  literal\n  text\nn: ~\nt: true\nnum: 0x1F\nfl: 1.50\n",
	"b: 2\na: 1\nc: {z: 1, y: 2}\n",
}

type poolExpr struct {
	text    string
	evalAll bool // run with eval-all semantics on two documents
}

var incDir string

func exprs() []poolExpr {
	f := func(name string) string { return filepath.Join(incDir, name) }
	return []poolExpr{
		{text: "."},
		{text: ".a"},
		{text: ".b | sort"},
		{text: "sort"},
		{text: "sort_by(.n)"},
		{text: ".list | sort_by(.name)"},
		{text: ".people | sort_by(.age, .name) | .[].name"},
		{text: ".people | group_by(.age) | map(length)"},
		{text: ".people | map(select(.age > 26) | .name)"},
		{text: "sort_keys(..)"},
		{text: ".b |= sort"},
		{text: ".a = 5"},
		{text: ".c.x |= . + \"!\""},
		{text: "del(.a)"},
		{text: "to_json"},
		{text: ". | to_yaml | from_yaml"},
		{text: ".c | to_props"},
		{text: ".c | to_xml"},
		{text: "[.. | select(tag == \"!!str\")] | length"},
		{text: ".text | split(\",\") | join(\"-\")"},
		{text: ".d | @base64 | @base64d"},
		{text: ".a as $x | [$x, $x]"},
		{text: ".[] as $i ireduce (0; . + $i)"},
		{text: ".[] as $i ireduce (0; . += $i)"},
		{text: ".b[] |= (0 | . += 1)"},
		{text: "with(0; . = 5)"},
		{text: "1 | . *= 2"},
		{text: "{\"a\": 1} | .a += 1"},
		{text: "[1, 2] | .[0] = 5"},
		{text: "true | . tag = \"!!str\""},
		{text: "null | . = 3"},
		{text: "\"str\" | . style=\"double\""},
		{text: "[3, 1, 2] | sort | .[0] = 9"},
		{text: "(.a, 7) |= . + 1"},
		{text: "explode(.)"},
		{text: ".b | unique | reverse"},
		{text: "with(.c; .new = 1)"},
		{text: "\"val: \\(.a)\""},
		{text: ".date | format_datetime(\"2006-01-02\")"},
		{text: ".date | with_dtf(\"2006-01-02T15:04:05Z\"; format_datetime(\"Jan 2\"))"},
		{text: "{\"k\": .a, \"l\": (.b | length)}"},
		{text: "keys"},
		{text: "to_entries"},
		{text: ".. | select(has(\"name\")) | .name"},
		{text: "(.a, .d) |= \"z\""},
		{text: ".a // \"dflt\""},
		{text: "[.[] | . * 2]"},
		{text: ". * {\"merged\": true}"},
		{text: "path(..)"},
		{text: ".. style=\"flow\""},
		{text: ".a line_comment=\"lc\""},
		{text: "load(\"" + f("inc.yaml") + "\")"},
		{text: ".loaded = load(\"" + f("inc.yaml") + "\").k"},
		{text: "load_xml(\"" + f("inc.xml") + "\")"},
		{text: "load_props(\"" + f("inc.properties") + "\")"},
		{text: "load_base64(\"" + f("inc.b64") + "\")"},
		{text: "load_str(\"" + f("inc.txt") + "\")"},
		{text: "env(C18_VAR)"},
		{text: "strenv(C18_VAR) + \"x\""},
		{text: "\"${C18_VAR}-${C18_UNSET}\" | envsubst"},
		{text: "\"${C18_VAR}\" | envsubst(ne)"},
		{text: "\"${C18_VAR}\" | envsubst(nu)"},
		{text: "\"${C18_EMPTY}x\" | envsubst(ne, ff)"},
		{text: "[.[] | tag]"},
		{text: "splitDoc"},
		{text: "document_index"},
		{text: ".a | test(\"^x\")"},
		// patterns and replacements that depend on the document through string interpolation
		{text: "[.. | select(tag == \"!!str\") | test(\"^\\(.)$\")]"},
		{text: "[.. | select(tag == \"!!str\") | sub(\"^\\(.)$\"; \"R\")]"},
		{text: "[.. | select(tag == \"!!str\") | [match(\"\\(.)\") | .string]]"},
		{text: ".a as $p | [.. | select(tag == \"!!str\") | test(\"\\($p)\")]"},
		{text: "[.. | select(tag == \"!!str\") | capture(\"(?P<v>\\(.))\")]"},
		{text: "[.b[] | select(. > 1)] | min, max"},
		{text: "pick([\"a\", \"c\"])"},
		{text: ".. | select(anchor != \"\") | anchor"},
		{text: ". as $d | $d.a"},
		{text: "[.] | length", evalAll: true},
		{text: "[.a] | sort", evalAll: true},
		{text: "select(fi == 0) * select(fi == 1)", evalAll: true},
		{text: "sort_by(.a) | .[0]", evalAll: true},
		{text: ".a", evalAll: true},
	}
}

// templates are instantiated with a number of their own, so that their text has not been parsed or cached before
var templates = []string{
	".a + %d", "\"v\\(.a) n\\(%d)\"", "[.b[] | . + %d]", "{\"k%d\": .a}", ".c.x |= . + \"%d\"", "sort_by(.n + %d)", "\"\\(.c.x) \\(.b | length + %d)\"",
	".[] as $i ireduce (%d; . += $i)", "with(.c; .n%d = %d)", ".people | map(.age + %d)", "%d | . += 1", ".a as $v%d | $v%d", "to_json | from_json | .a == %d", "[.. | select(tag == \"!!int\") | . * %d]",
	// an expression spelled in a literal that interpolates the document: every document, its own expression
	"eval(\"\\\"\\(.a)-%d\\\"\")", "[.. | select(tag == \"!!str\")] | .[] |= eval(\"\\\"\\(.)-%d\\\"\")",
}

func exprText(st Step) string {
	if st.Tmpl >= 0 {
		t := templates[st.Tmpl]
		n := strings.Count(t, "%d")
		args := make([]interface{}, n)
		for i := range args {
			args[i] = st.N
		}
		return fmt.Sprintf(t, args...)
	}
	return pool[st.E].text
}

func isAll(st Step) bool { return st.Tmpl < 0 && pool[st.E].evalAll }

var garbage = []string{"(.a", ".a +", "[.a", ".a | | .b", "{", "\"unterminated", ".a ]", "sort_by(", "envsubst(zz)", ".[", "load(", "select(.a == )", "1 +", "to_yaml(", ". as", "}"}
var parseOnly = []string{"\"x\" | envsubst(ne)", "\"x\" | envsubst(nu)", "\"x\" | envsubst(ne, nu, ff)", "\"x\" | envsubst", "load_xml(\"/nonexistent\")", "load(\"/nonexistent\")", "sort_by(.zz)", "now", "shuffle", ".a tag = \"!!str\"", "with_dtf(\"x\"; .)", "to_yaml(7)", "to_json(3)", "flatten(2)", "parent(3)"}
var outFormats = []string{"yaml", "yaml", "yaml", "json", "props", "xml"}

var poolOnce sync.Once
var pool []poolExpr
var docFiles []string

func setup() {
	poolOnce.Do(func() {
		hx.Init()
		incDir = filepath.Join(hx.WorkDir(), "inc")
		_ = os.MkdirAll(incDir, 0o755)
		w := func(n, c string) { _ = os.WriteFile(filepath.Join(incDir, n), []byte(c), 0o644) }
		w("inc.yaml", "k: loaded\nlist: [1, 2]\n")
		w("inc.xml", "<root a=\"1\"><item>x</item><item>y</item></root>")
		w("inc.properties", "p.q = 1\np.r = two\n")
		w("inc.b64", "bG9hZGVkIHRleHQ=")
		w("inc.txt", "plain\ntext\n")
		for i, d := range docs {
			p := filepath.Join(incDir, fmt.Sprintf("doc%d.yaml", i))
			_ = os.WriteFile(p, []byte(d), 0o644)
			docFiles = append(docFiles, p)
		}
		pool = exprs()
		os.Setenv("C18_VAR", "envvalue")
		os.Setenv("C18_EMPTY", "")
		os.Unsetenv("C18_UNSET")
	})
}

// ---------------------------------------------------------------------------
// pristine baseline

type base struct {
	out    string
	failed bool
}

var baseMu sync.Mutex
var baseMemo = map[string]base{}
var baseRuns int

func baseline(st Step) (base, *hx.Verdict) {
	d, d2, out := st.D, st.D2, st.Out
	text, all := exprText(st), isAll(st)
	key := fmt.Sprintf("%s|%d|%d|%s|%v", text, d, d2, out, all)
	baseMu.Lock()
	b, ok := baseMemo[key]
	baseMu.Unlock()
	if ok {
		return b, nil
	}
	// the shards of one run share their pristine results through files (same binary, same inputs)
	cacheFile := filepath.Join(filepath.Dir(hx.WorkDir()), "basecache", hx.ShortHash(key)+".json")
	if raw, err := os.ReadFile(cacheFile); err == nil {
		var cb struct {
			Key, Out string
			Failed   bool
		}
		if json.Unmarshal(raw, &cb) == nil && cb.Key == key {
			b = base{out: cb.Out, failed: cb.Failed}
			baseMu.Lock()
			baseMemo[key] = b
			baseMu.Unlock()
			return b, nil
		}
	}
	args := []string{}
	if all {
		args = append(args, "ea")
	}
	if out != "yaml" {
		args = append(args, "-o="+out)
	}
	args = append(args, text, docFiles[d])
	if all {
		args = append(args, docFiles[d2])
	}
	env := []string{"C18_VAR=envvalue", "C18_EMPTY="}
	r1 := hx.RunBin(incDir, args, nil, append(env, "GOMAXPROCS=1"), 30*time.Second)
	r2 := r1
	if st.Tmpl < 0 {
		// determinism of the pristine process itself: a second run under another scheduler width and environment order
		r2 = hx.RunBin(incDir, args, nil, append([]string{"ZZZ=1"}, append(env, "GOMAXPROCS=8")...), 30*time.Second)
	}
	if r1.Timeout || r2.Timeout {
		v := hx.Disc("baseline_timeout")
		return base{}, &v
	}
	if r1.Stdout != r2.Stdout || (r1.Exit == 0) != (r2.Exit == 0) {
		v := hx.Bad("", "two pristine runs of yq %q differ:\n--- GOMAXPROCS=1 (exit %d)\n%s\n--- GOMAXPROCS=8 (exit %d)\n%s", args, r1.Exit, r1.Stdout, r2.Exit, r2.Stdout)
		return base{}, &v
	}
	b = base{out: r1.Stdout, failed: r1.Exit != 0}
	if raw, err := json.Marshal(map[string]interface{}{"Key": key, "Out": b.out, "Failed": b.failed}); err == nil {
		_ = os.MkdirAll(filepath.Dir(cacheFile), 0o755)
		tmp := fmt.Sprintf("%s.%d", cacheFile, os.Getpid())
		if os.WriteFile(tmp, raw, 0o644) == nil {
			_ = os.Rename(tmp, cacheFile)
		}
	}
	baseMu.Lock()
	baseMemo[key] = b
	baseRuns++
	baseMu.Unlock()
	return b, nil
}

// ---------------------------------------------------------------------------
// in-process evaluation with optional object reuse

type shared struct {
	trees map[string]*yqlib.ExpressionNode
	decs  map[string]yqlib.Decoder
	encs  map[string]yqlib.Encoder
}

func newShared() *shared {
	return &shared{trees: map[string]*yqlib.ExpressionNode{}, decs: map[string]yqlib.Decoder{}, encs: map[string]yqlib.Encoder{}}
}

type Step struct {
	Kind string `json:"kind"` // fresh, tree, dec, enc, garbage, parse
	E    int    `json:"e"`
	D    int    `json:"d"`
	D2   int    `json:"d2"`
	Out  string `json:"out"`
	Text string `json:"text,omitempty"` // garbage / parse-only text
	Tmpl int    `json:"tmpl"`           // >= 0: templates[Tmpl] with N instead of pool[E]
	N    int    `json:"n,omitempty"`
}

var prefsMu sync.Mutex

// run evaluates one step. Preferences are process-wide in yq (the command sets them once per process); steps of
// different output formats set them the way the command does, under a lock that the concurrent rounds hold only while
// they construct their encoder / decoder (all concurrent steps of one round use one output format).
func run(st Step, sh *shared, setPrefs bool) (out string, failed bool, panicked string) {
	defer func() {
		if r := recover(); r != nil {
			panicked = fmt.Sprint(r)
		}
	}()
	var enc yqlib.Encoder
	var dec yqlib.Decoder
	mk := func() error {
		e, d, err := hx.ApplyOpts(hx.Opts{Out: st.Out, EvalAll: isAll(st)})
		enc, dec = e, d
		return err
	}
	if setPrefs {
		prefsMu.Lock()
		err := mk()
		prefsMu.Unlock()
		if err != nil {
			return "", true, ""
		}
	} else {
		of, _ := yqlib.FormatFromString(st.Out)
		enc = of.EncoderFactory()
		yp := yqlib.ConfiguredYamlPreferences.Copy()
		yp.EvaluateTogether = isAll(st) // the command sets this per run (eval vs eval-all)
		dec = yqlib.NewYamlDecoder(yp)
	}
	if st.Kind == "enc" {
		if e, ok := sh.encs[st.Out]; ok {
			enc = e
		} else {
			sh.encs[st.Out] = enc
		}
	}
	if st.Kind == "dec" {
		k := fmt.Sprint(isAll(st))
		if d, ok := sh.decs[k]; ok {
			dec = d
		} else {
			sh.decs[k] = dec
		}
	}
	text := exprText(st)
	var node *yqlib.ExpressionNode
	if st.Kind == "tree" {
		node = sh.trees[text]
	}
	if node == nil {
		n, err := yqlib.ExpressionParser.ParseExpression(text)
		if err != nil {
			return "", true, ""
		}
		node = n
		if st.Kind == "tree" {
			sh.trees[text] = n
		}
	}
	buf := new(bytes.Buffer)
	printer := yqlib.NewPrinter(enc, yqlib.NewSinglePrinterWriter(buf))
	if isAll(st) {
		all := list.New()
		for i, d := range []int{st.D, st.D2} {
			f, err := os.Open(docFiles[d])
			if err != nil {
				return "", true, ""
			}
			part, err := readDocs(f, docFiles[d], i, dec)
			f.Close()
			if err != nil {
				return buf.String(), true, ""
			}
			all.PushBackList(part)
		}
		res, err := yqlib.NewAllAtOnceEvaluator().EvaluateCandidateNodes(text, all)
		if err != nil {
			return buf.String(), true, ""
		}
		if err := printer.PrintResults(res); err != nil {
			return buf.String(), true, ""
		}
		return buf.String(), false, ""
	}
	_, err := yqlib.NewStreamEvaluator().Evaluate(docFiles[st.D], bufio.NewReader(strings.NewReader(docs[st.D])), node, printer, dec)
	return buf.String(), err != nil, ""
}

// readDocs is what AllAtOnceEvaluator.EvaluateFiles does per file (lib.go:readDocuments is not exported).
func readDocs(f *os.File, name string, fileIndex int, dec yqlib.Decoder) (*list.List, error) {
	l, err := yqlib.ReadDocuments(bufio.NewReader(f), dec)
	if err != nil {
		return nil, err
	}
	for el := l.Front(); el != nil; el = el.Next() {
		n := el.Value.(*yqlib.CandidateNode)
		n.SetFilename(name)
		n.SetFileIndex(fileIndex)
	}
	return l, nil
}

// ---------------------------------------------------------------------------
// histories

type History struct {
	Steps []Step `json:"steps"`
}

func genStep(t *rapid.T, kinds []string) Step {
	setup()
	st := Step{Kind: rapid.SampledFrom(kinds).Draw(t, "kind"), Tmpl: -1}
	switch st.Kind {
	case "garbage":
		st.Text = rapid.SampledFrom(garbage).Draw(t, "g")
		return st
	case "parse":
		st.Text = rapid.SampledFrom(parseOnly).Draw(t, "p")
		return st
	}
	st.Tmpl = -1
	st.E = rapid.IntRange(0, len(pool)-1).Draw(t, "e")
	if rapid.IntRange(0, 5).Draw(t, "usetmpl") == 0 {
		st.Tmpl = rapid.IntRange(0, len(templates)-1).Draw(t, "tmpl")
		st.N = rapid.IntRange(0, 1<<30).Draw(t, "n")
	}
	st.D = rapid.IntRange(0, len(docs)-1).Draw(t, "d")
	st.D2 = rapid.IntRange(0, len(docs)-1).Draw(t, "d2")
	st.Out = rapid.SampledFrom(outFormats).Draw(t, "out")
	return st
}

var histKinds = []string{"fresh", "fresh", "tree", "tree", "tree", "dec", "dec", "enc", "enc", "garbage", "parse"}

func genHistory(t *rapid.T) History {
	n := rapid.IntRange(2, 14).Draw(t, "n")
	var h History
	last := -1 // index of the latest evaluation step
	for i := 0; i < n; i++ {
		if last >= 0 && rapid.IntRange(0, 2).Draw(t, "again") == 0 {
			// the same expression once more on its kept tree (another document half of the time)
			st := h.Steps[last]
			st.Kind = "tree"
			if rapid.Bool().Draw(t, "otherdoc") {
				st.D = rapid.IntRange(0, len(docs)-1).Draw(t, "d")
			}
			h.Steps = append(h.Steps, st)
			last = len(h.Steps) - 1
			continue
		}
		st := genStep(t, histKinds)
		h.Steps = append(h.Steps, st)
		if st.Kind != "garbage" && st.Kind != "parse" {
			last = len(h.Steps) - 1
		}
	}
	return h
}

func describe(st Step) string {
	if st.Kind == "garbage" || st.Kind == "parse" {
		return fmt.Sprintf("%s %q", st.Kind, st.Text)
	}
	s := fmt.Sprintf("%s -o=%s %q doc%d", st.Kind, st.Out, exprText(st), st.D)
	if isAll(st) {
		s += fmt.Sprintf(" doc%d (eval-all)", st.D2)
	}
	return s
}

var executed []string // what this process ran before the current case (a failing case may need it)

func checkHistory(h History) hx.Verdict {
	setup()
	sh := newShared()
	evals := 0
	sharedAfterOther := false
	lastPair := ""
	var trace []string
	for i, st := range h.Steps {
		trace = append(trace, describe(st))
		switch st.Kind {
		case "garbage":
			if _, o := hx.Parse(st.Text); o.Crashed() {
				return hx.Bad("panic-site:"+o.PanicSite, "parser panic on %q", st.Text)
			}
			continue
		case "parse":
			if _, o := hx.Parse(st.Text); o.Crashed() {
				return hx.Bad("panic-site:"+o.PanicSite, "parser panic on %q", st.Text)
			}
			continue
		}
		b, bad := baseline(st)
		if bad != nil {
			return *bad
		}
		out, failed, pan := run(st, sh, true)
		if pan != "" {
			return hx.Bad("", "step %d panicked (%s); history:\n  %s", i, pan, strings.Join(trace, "\n  "))
		}
		pair := fmt.Sprintf("%s/%d", exprText(st), st.D)
		if st.Kind != "fresh" && lastPair != "" && lastPair != pair {
			sharedAfterOther = true
		}
		lastPair = pair
		evals++
		if failed != b.failed || (!failed && out != b.out) {
			prev := executed
			if len(prev) > 30 {
				prev = prev[len(prev)-30:]
			}
			return hx.Bad("", "step %d gives a different result than a pristine process:\n--- in this process (failed=%v)\n%s\n--- pristine yq (failed=%v)\n%s\nhistory of this case:\n  %s\nlast steps of earlier cases in this process:\n  %s",
				i, failed, out, b.failed, b.out, strings.Join(trace, "\n  "), strings.Join(prev, "\n  "))
		}
	}
	executed = append(executed, trace...)
	if len(executed) > 400 {
		executed = executed[len(executed)-200:]
	}
	labels := []string{}
	for _, st := range h.Steps {
		labels = append(labels, "step:"+st.Kind)
	}
	sort.Strings(labels)
	labels = uniq(labels)
	return hx.OK(evals >= 4 && sharedAfterOther, fmt.Sprint(h.Steps), labels...)
}

func uniq(s []string) []string {
	var o []string
	for i, x := range s {
		if i == 0 || x != s[i-1] {
			o = append(o, x)
		}
	}
	return o
}

// ---------------------------------------------------------------------------
// concurrent rounds

type Round struct {
	Out     string   `json:"out"`
	Workers [][]Step `json:"workers"`
}

func genRound(t *rapid.T) Round {
	setup()
	r := Round{Out: rapid.SampledFrom(outFormats).Draw(t, "out")}
	nw := rapid.IntRange(2, 8).Draw(t, "workers")
	// a few expressions per round so that the goroutines meet on the same operators
	var focus []int
	for i := rapid.IntRange(1, 4).Draw(t, "nf"); i > 0; i-- {
		focus = append(focus, rapid.IntRange(0, len(pool)-1).Draw(t, "f"))
	}
	for w := 0; w < nw; w++ {
		var steps []Step
		for i := rapid.IntRange(1, 5).Draw(t, "ns"); i > 0; i-- {
			st := genStep(t, []string{"fresh", "fresh", "fresh", "tree", "dec", "enc", "garbage", "parse"})
			if st.Kind != "garbage" && st.Kind != "parse" {
				st.Out = r.Out
				if st.Tmpl < 0 && rapid.IntRange(0, 2).Draw(t, "usefocus") != 0 {
					st.E = rapid.SampledFrom(focus).Draw(t, "fe")
				}
			}
			steps = append(steps, st)
		}
		r.Workers = append(r.Workers, steps)
	}
	return r
}

var raceHeader = regexp.MustCompile(`(?m)^WARNING: DATA RACE`)
var yqFrame = regexp.MustCompile(`(?m)^\s+(github\.com/mikefarah/yq/v4/[^\s(]+(?:\([^)]*\))?[^\s(]*)\(`)
var raceSeen = map[string]int64{}

// raceReports returns what the race detector wrote (GORACE log_path) since the last call.
func raceReports() string {
	files, _ := filepath.Glob(filepath.Join(hx.WorkDir(), "race.*"))
	var sb strings.Builder
	for _, f := range files {
		b, err := os.ReadFile(f)
		if err != nil {
			continue
		}
		off := raceSeen[f]
		if int64(len(b)) > off {
			sb.Write(b[off:])
			raceSeen[f] = int64(len(b))
		}
	}
	return sb.String()
}

func raceSig(report string) string {
	// the first yq frame of the two accesses of the first report
	first := report
	if loc := raceHeader.FindAllStringIndex(report, 2); len(loc) > 1 {
		first = report[:loc[1][0]]
	}
	parts := strings.Split(first, "\n\n")
	var sites []string
	for _, p := range parts {
		if !strings.Contains(p, " by ") || strings.Contains(p, "created at") && !strings.Contains(p, "rite at") && !strings.Contains(p, "ead at") {
			continue
		}
		if strings.Contains(p, "Goroutine ") && strings.Contains(p, "created at") {
			continue
		}
		if m := yqFrame.FindStringSubmatch(p); m != nil {
			sites = append(sites, strings.TrimPrefix(m[1], "github.com/mikefarah/yq/v4/pkg/yqlib."))
		}
	}
	sort.Strings(sites)
	sites = uniq(sites)
	return "race-site:" + strings.Join(sites, "+")
}

func checkRound(r Round) hx.Verdict {
	setup()
	// baselines first (sequential, pristine processes)
	type exp struct {
		b  base
		ok bool
	}
	want := make([][]exp, len(r.Workers))
	for w, steps := range r.Workers {
		want[w] = make([]exp, len(steps))
		for i, st := range steps {
			if st.Kind == "garbage" || st.Kind == "parse" {
				continue
			}
			b, bad := baseline(st)
			if bad != nil {
				return *bad
			}
			want[w][i] = exp{b, true}
		}
	}
	// the preferences are set once for the round, as the command does once per process
	prefsMu.Lock()
	_, _, err := hx.ApplyOpts(hx.Opts{Out: r.Out})
	prefsMu.Unlock()
	if err != nil {
		return hx.Disc("format")
	}
	if rep := raceReports(); raceHeader.MatchString(rep) {
		v := hx.Bad(raceSig(rep), "data race reported outside a concurrent round (before this one):\n%s", rep)
		v.NoShrink = true
		return v
	}
	var wg sync.WaitGroup
	start := make(chan struct{})
	errs := make([]string, len(r.Workers))
	for w := range r.Workers {
		wg.Add(1)
		go func(w int) {
			defer wg.Done()
			sh := newShared() // objects are shared between the steps of one goroutine only
			<-start
			for i, st := range r.Workers[w] {
				if st.Kind == "garbage" || st.Kind == "parse" {
					func() {
						defer func() { _ = recover() }()
						_, _ = yqlib.ExpressionParser.ParseExpression(st.Text)
					}()
					continue
				}
				out, failed, pan := run(st, sh, false)
				b := want[w][i].b
				if pan != "" {
					errs[w] = fmt.Sprintf("goroutine %d step %d (%s) panicked: %s", w, i, describe(st), pan)
					return
				}
				if failed != b.failed || (!failed && out != b.out) {
					errs[w] = fmt.Sprintf("goroutine %d step %d (%s) gives a different result than alone:\n--- concurrent (failed=%v)\n%s\n--- pristine yq (failed=%v)\n%s", w, i, describe(st), failed, out, b.failed, b.out)
					return
				}
			}
		}(w)
	}
	close(start)
	wg.Wait()
	var plan []string
	for w, steps := range r.Workers {
		for _, st := range steps {
			plan = append(plan, fmt.Sprintf("g%d: %s", w, describe(st)))
		}
	}
	if rep := raceReports(); raceHeader.MatchString(rep) {
		if len(rep) > 6000 {
			rep = rep[:6000] + "\n..."
		}
		v := hx.Bad(raceSig(rep), "data race reported during a round of %d goroutines:\n%s\nround:\n  %s", len(r.Workers), rep, strings.Join(plan, "\n  "))
		v.NoShrink = true
		return v
	}
	for _, e := range errs {
		if e != "" {
			v := hx.Bad("", "%s\nround:\n  %s", e, strings.Join(plan, "\n  "))
			return v
		}
	}
	return hx.OK(true, fmt.Sprint(r.Workers), fmt.Sprintf("concurrent_%d", len(r.Workers)))
}

func TestProp(t *testing.T) {
	hx.RunProperty(t,
		// rounds first: lazily initialised state is cold only once per process
		hx.NewSub("rounds", 100, 3000, genRound, checkRound),
		hx.NewSub("histories", 300, 10000, genHistory, checkHistory),
	)
}
