package c19

import (
	"encoding/base64"
	"fmt"
	"net/url"
	"os"
	"path/filepath"
	"strings"
	"testing"
	"time"

	"pgregory.net/rapid"
	"verif/hx"
	"verif/model"
)

const rule = "binary only. (formats) documents whose keys and scalar leaves are unique tokens x expressions x every output format: a run that exits 0 must have printed every token of every result (results taken from the same command with -o=json); a result the format cannot carry must give exit != 0 and a message. " +
	"(failures) cases built to fail at a known stage - expression parse error, evaluation error on document k of n, malformed input at document k, missing file, encode error - must exit != 0 with a non-empty stderr. " +
	"(exit_status) -e exits 1 exactly when there is no result or every result is null or false. (null_input) -n never reads stdin (file offset stays 0, output independent of stdin). " +
	"(autodetect) with no -p/-o the first file's extension selects both formats (yaml for unknown ones), case-insensitively. " +
	"non-trivial = the case includes a failure at some stage, a format that cannot represent the result, or a flag other than -o; distinct by (args, inputs) Sub cmd_vs_lib: (expression, input, -p, -o, mode, 0-3 flags) through the binary and through the library configured as each flag is documented; exit status and stdout must agree. Sub split: --split-exp with several results per document, several documents and files, eval-all; every result complete in its own file. Sub autodetect also runs an explicit -o next to the detected input format and compares the names of one format with each other."

func TestMain(m *testing.M) {
	hx.Main(m, "C19", rule,
		"'every result is in the output' is judged on unique tokens used as keys and leaves, so it is format-agnostic; null and empty-string leaves are not tracked",
		"the expected set of results comes from the same command with -o=json, a format that can represent every result")
}

func workdir() string {
	d := filepath.Join(hx.WorkDir(), "c19")
	_ = os.MkdirAll(d, 0o755)
	return d
}

func run(args []string, stdin []byte) hx.BinResult {
	return hx.RunBin(workdir(), args, stdin, nil, 60*time.Second)
}

func crashed(r hx.BinResult) bool {
	return r.Signal != "" || (r.Exit == 2 && (strings.Contains(r.Stderr, "goroutine ") || strings.Contains(r.Stderr, "panic:")))
}

// ---------------------------------------------------------------------------
// token documents

type tokgen struct {
	t *rapid.T
	n int
	// special: the case is about keys the XML encoder treats specially
	special bool
}

func (g *tokgen) str() string { g.n++; return fmt.Sprintf("s%dx", g.n) }
func (g *tokgen) key() string { g.n++; return fmt.Sprintf("k%dq", g.n) }

// mapKey: now and then a key the XML encoder treats specially (attribute, content, processing instruction,
// directive); the other formats print it like any key
func (g *tokgen) mapKey(m *model.Value) string {
	hi := 40
	if g.special {
		hi = 8
	}
	switch rapid.IntRange(0, hi).Draw(g.t, "special") {
	case 0, 1:
		return "+@" + g.key()
	case 2:
		if _, dup := m.Get("+content"); !dup {
			return "+content"
		}
	case 3:
		return "+p_" + g.key()
	case 4:
		if _, dup := m.Get("+directive"); !dup {
			return "+directive"
		}
	}
	return g.key()
}

// keyToken: what of a key must show in every format's output
func keyToken(k string) string {
	switch {
	case k == "+content" || k == "+directive":
		return ""
	case strings.HasPrefix(k, "+@"), strings.HasPrefix(k, "+p_"):
		return k[strings.Index(k, "k"):]
	}
	return k
}
func (g *tokgen) num() int64 { g.n++; return int64(10000 + g.n*7) }

func (g *tokgen) value(depth int) *model.Value {
	k := rapid.IntRange(0, 9).Draw(g.t, "vk")
	if depth <= 0 {
		k %= 4
	}
	switch {
	case k <= 1:
		return model.NewStr(g.str())
	case k == 2:
		return model.NewInt(g.num())
	case k == 3:
		return rapid.SampledFrom([]*model.Value{model.NewBool(true), model.NewNull(), model.NewStr("")}).Draw(g.t, "kw")
	case k <= 6:
		m := model.NewMap()
		for i := rapid.IntRange(0, 3).Draw(g.t, "mn"); i > 0; i-- {
			m.Set(g.mapKey(m), g.value(depth-1))
		}
		return m
	default:
		s := model.NewSeq()
		shape := rapid.IntRange(0, 3).Draw(g.t, "shape")
		for i := rapid.IntRange(0, 3).Draw(g.t, "sn"); i > 0; i-- {
			switch shape {
			case 0: // rows of scalars
				s.Elem = append(s.Elem, model.NewStr(g.str()))
			case 1: // rows of maps with differing keys
				m := model.NewMap()
				if len(s.Elem) > 0 && rapid.IntRange(0, 1).Draw(g.t, "nestedrow") == 0 {
					// a later row that holds something a flat format cannot write: the run fails, the cell is not left empty
					m.Set(s.Elem[0].Keys[0], model.NewMap().Set(g.key(), model.NewStr(g.str())))
				}
				m.Set(g.key(), model.NewInt(g.num()))
				if rapid.Bool().Draw(g.t, "two") {
					m.Set(g.key(), model.NewStr(g.str()))
				}
				s.Elem = append(s.Elem, m)
			case 2: // rows of rows
				s.Elem = append(s.Elem, model.NewSeq(model.NewStr(g.str()), model.NewInt(g.num())))
			default:
				s.Elem = append(s.Elem, g.value(depth-1))
			}
		}
		return s
	}
}

// flatOnly: formats that flatten to path = value lines cannot carry an empty container (nor its key)
var flatOnly = false

func hasScalar(v *model.Value) bool {
	if v.IsScalar() {
		return true
	}
	for _, e := range v.Elem {
		if hasScalar(e) {
			return true
		}
	}
	for _, e := range v.Vals {
		if hasScalar(e) {
			return true
		}
	}
	return false
}

func tokens(v *model.Value, out *[]string) {
	switch v.K {
	case model.Map:
		for i, k := range v.Keys {
			// formats that print one line per scalar (documented: empty maps and arrays are not encoded) show a key
			// only on the way to a scalar
			if flatOnly && !hasScalar(v.Vals[i]) {
				continue
			}
			if kt := keyToken(k); kt != "" {
				*out = append(*out, kt)
			}
			tokens(v.Vals[i], out)
		}
	case model.Seq:
		for _, e := range v.Elem {
			tokens(e, out)
		}
	case model.Str:
		if v.S != "" {
			*out = append(*out, v.S)
		}
	case model.Int:
		*out = append(*out, v.I.String())
	}
}

var outFormats = []string{"yaml", "json", "props", "csv", "tsv", "xml", "base64", "uri", "toml", "shell", "lua"}

type FmtCase struct {
	Doc    string `json:"doc"`
	Expr   string `json:"expr"`
	Out    string `json:"out"`
	Second string `json:"second,omitempty"`
	Nul    bool   `json:"nul,omitempty"`
}

func genFmt(t *rapid.T) FmtCase {
	g := &tokgen{t: t, special: rapid.IntRange(0, 3).Draw(t, "specialkeys") == 0}
	c := FmtCase{Doc: g.value(rapid.IntRange(0, 3).Draw(t, "depth")).JSON(), Out: rapid.SampledFrom(outFormats).Draw(t, "out"),
		Expr: rapid.SampledFrom([]string{".", ".", ".[]", "..", ".[0]", "[.]", "{\"w\": .}", ".[] | select(kind == \"scalar\")", "to_entries", "[.. | select(kind == \"scalar\")]", ". as $x | [$x, $x] | .[0]"}).Draw(t, "expr")}
	if rapid.IntRange(0, 3).Draw(t, "second") == 0 {
		c.Second = g.value(2).JSON()
	}
	if g.special && rapid.Bool().Draw(t, "toxml") {
		c.Out = "xml"
	}
	if !g.special && rapid.IntRange(0, 5).Draw(t, "tocsv") == 0 {
		// rows for the flat formats: a sequence of maps at the top, written as CSV or TSV
		rows := model.NewSeq()
		for i := rapid.IntRange(2, 4).Draw(t, "nrows"); i > 0; i-- {
			m := model.NewMap()
			m.Set("id", model.NewInt(g.num()))
			if len(rows.Elem) > 0 && rapid.IntRange(0, 1).Draw(t, "nestedcell") == 0 {
				m.Set("v", model.NewMap().Set(g.key(), model.NewStr(g.str())))
			} else {
				m.Set("v", model.NewStr(g.str()))
			}
			rows.Elem = append(rows.Elem, m)
		}
		c.Doc, c.Expr, c.Out = rows.JSON(), ".", rapid.SampledFrom([]string{"csv", "tsv"}).Draw(t, "flatout")
	}
	c.Nul = rapid.IntRange(0, 4).Draw(t, "nul") == 0
	return c
}

func checkFmt(c FmtCase) hx.Verdict {
	dir := workdir()
	f1 := filepath.Join(dir, "in1.json")
	_ = os.WriteFile(f1, []byte(c.Doc+"\n"), 0o644)
	files := []string{f1}
	if c.Second != "" {
		f2 := filepath.Join(dir, "in2.json")
		_ = os.WriteFile(f2, []byte(c.Second+"\n"), 0o644)
		files = append(files, f2)
	}
	refArgs := append([]string{"-p=json", "-o=json", "-I=0", "--expression", c.Expr}, files...)
	ref := run(refArgs, nil)
	if crashed(ref) {
		return hx.Bad("panic-site:binary", "yq crashed: %v stderr=%.400s", refArgs, ref.Stderr)
	}
	if ref.Exit != 0 {
		return hx.Unspec("reference_run_fails")
	}
	results, err := model.ParseJSONStream(ref.Stdout)
	if err != nil {
		return hx.Bad("", "-o=json printed invalid JSON: %q", ref.Stdout)
	}
	var want []string
	flatOnly = c.Out == "props" || c.Out == "shell" || c.Out == "xml" || c.Out == "csv" || c.Out == "tsv"
	for _, r := range results {
		if (c.Out == "csv" || c.Out == "tsv") && r.K == model.Seq && len(r.Elem) > 0 && r.Elem[0].K == model.Map {
			// documented: the first object determines the header; fields other rows have on top of it are not included
			hdr := r.Elem[0].Keys
			want = append(want, hdr...)
			for _, row := range r.Elem {
				if row.K != model.Map {
					tokens(row, &want)
					continue
				}
				for _, k := range hdr {
					if x, ok := row.Get(k); ok {
						tokens(x, &want)
					}
				}
			}
			continue
		}
		tokens(r, &want)
	}
	flatOnly = false
	args := []string{"-p=json", "-o=" + c.Out}
	if c.Nul {
		args = append(args, "-0")
	}
	args = append(append(args, "--expression", c.Expr), files...)
	r := run(args, nil)
	if crashed(r) {
		return hx.Bad("panic-site:binary", "yq crashed: %v stderr=%.400s", args, r.Stderr)
	}
	labels := []string{"out:" + c.Out}
	if r.Exit != 0 {
		if strings.TrimSpace(r.Stderr) == "" {
			return hx.Bad("", "exit %d without a message on stderr: %v", r.Exit, args)
		}
		return hx.OK(true, fmt.Sprint(args, c.Doc, c.Second), append(labels, "format_cannot_represent")...)
	}
	if strings.Contains(r.Stderr, "Error:") {
		return hx.Bad("", "exit 0 with an error message on stderr (%q): %v", r.Stderr, args)
	}
	text := strings.ReplaceAll(r.Stdout, "\x00", "\n")
	switch c.Out {
	case "base64":
		var dec strings.Builder
		for _, l := range strings.Split(text, "\n") {
			if b, err := base64.StdEncoding.DecodeString(strings.TrimSpace(l)); err == nil {
				dec.Write(b)
				dec.WriteByte('\n')
			} else {
				dec.WriteString(l + "\n")
			}
		}
		text = dec.String()
	case "uri":
		if u, err := url.QueryUnescape(text); err == nil {
			text = u
		}
	}
	for _, tok := range want {
		if !strings.Contains(text, tok) {
			sig := ""
			if c.Out == "csv" || c.Out == "tsv" {
				sig = "input-shape:csv-heterogeneous-rows"
			}
			return hx.Bad(sig, "exit 0 but %q, part of a result, is not in the output: args=%v doc=%s second=%s results=%q output=%q", tok, args, c.Doc, c.Second, ref.Stdout, r.Stdout)
		}
	}
	return hx.OK(c.Out != "json" && c.Out != "yaml", fmt.Sprint(args, c.Doc, c.Second), labels...)
}

// ---------------------------------------------------------------------------
// failures known by construction

type FailCase struct {
	Kind  string   `json:"kind"`
	Args  []string `json:"args"`
	Files []string `json:"files"` // contents; names derive from index
	Names []string `json:"names"`
}

func genFail(t *rapid.T) FailCase {
	good := []string{"a: {b: 1}\n", "a: {b: 2}\nc: 3\n", "a: {b: 1}\n---\na: {b: 5}\n", "- 1\n- 2\n"}
	pick := func() string { return rapid.SampledFrom(good).Draw(t, "good") }
	c := FailCase{Kind: rapid.SampledFrom([]string{"parse", "eval_doc_k", "decode_doc_k", "missing_file", "encode", "bad_flag_value", "eval_error_fn", "decode_op_doc_k", "decode_format", "bad_args", "encode_bytes"}).Draw(t, "kind")}
	out := rapid.SampledFrom([]string{"", "-o=json", "-o=yaml", "-o=props", "-N", "-r"}).Draw(t, "flag")
	mode := rapid.SampledFrom([]string{"", "ea"}).Draw(t, "mode")
	if mode != "" {
		c.Args = append(c.Args, mode)
	}
	if out != "" {
		c.Args = append(c.Args, out)
	}
	switch c.Kind {
	case "parse":
		c.Args = append(c.Args, "--expression", rapid.SampledFrom([]string{".a = ", "(.a", ".a | ", ".[", "{", ".a as $x", "select(", ".a +", "[.a", ".a ]", "| .a"}).Draw(t, "pe"))
		c.Files = []string{pick()}
	case "eval_doc_k":
		// `.a.b` fails on the document whose a is a sequence
		n := rapid.IntRange(1, 3).Draw(t, "n")
		k := rapid.IntRange(0, n-1).Draw(t, "k")
		var docs []string
		for i := 0; i < n; i++ {
			if i == k {
				docs = append(docs, "a: [1, 2]\n")
			} else {
				docs = append(docs, "a: {b: 1}\n")
			}
		}
		c.Args = append(c.Args, "--expression", ".a.b")
		if rapid.Bool().Draw(t, "split") && n > 1 {
			c.Files = docs
		} else {
			c.Files = []string{strings.Join(docs, "---\n")}
		}
	case "decode_op_doc_k":
		// a decode operator fails on the document whose string is not decodable (empty / malformed)
		n := rapid.IntRange(1, 3).Draw(t, "n")
		k := rapid.IntRange(0, n-1).Draw(t, "k")
		op := rapid.SampledFrom([]string{"from_json", "from_yaml", "@jsond", "@yamld", "@base64d"}).Draw(t, "dop")
		good, bad := `a: "{\"x\": 1}"`+"\n", rapid.SampledFrom([]string{`a: ""`, `a: "{"`, `a: "[1,"`}).Draw(t, "badstr")+"\n"
		if op == "from_xml" {
			good, bad = `a: "<x>1</x>"`+"\n", rapid.SampledFrom([]string{`a: "<x>"`, `a: "<x></y>"`}).Draw(t, "badxml")+"\n"
		}
		if op == "@base64d" {
			good, bad = `a: "YWJj"`+"\n", `a: "!!!"`+"\n"
		}
		var docs []string
		for i := 0; i < n; i++ {
			if i == k {
				docs = append(docs, bad)
			} else {
				docs = append(docs, good)
			}
		}
		c.Args = append(c.Args, "--expression", ".a | "+op)
		if rapid.Bool().Draw(t, "split") && n > 1 {
			c.Files = docs
		} else {
			c.Files = []string{strings.Join(docs, "---\n")}
		}
	case "eval_error_fn":
		c.Args = append(c.Args, "--expression", `.a | error("custom failure")`)
		c.Files = []string{pick()}
	case "decode_doc_k":
		n := rapid.IntRange(1, 3).Draw(t, "n")
		k := rapid.IntRange(0, n-1).Draw(t, "k")
		var docs []string
		for i := 0; i < n; i++ {
			if i == k {
				docs = append(docs, rapid.SampledFrom([]string{"a: [1, 2\n", "a: {b: 1\n", "a: \"unterminated\n", "a: 1\n  b: 2\n", "\t- x\n"}).Draw(t, "bad"))
			} else {
				docs = append(docs, "a: {b: 1}\n")
			}
		}
		c.Args = append(c.Args, "--expression", ".")
		if rapid.Bool().Draw(t, "split") && n > 1 {
			c.Files = docs
		} else {
			c.Files = []string{strings.Join(docs, "---\n")}
		}
	case "decode_format":
		// texts the other input formats cannot place or finish reading
		bad := rapid.SampledFrom([][2]string{{"props", "a.0 = x\na.k = y\n"}, {"props", "a.0 = x\n# note\na.k = y\n"}, {"props", "z = 1\n# c1\n# c2\nz.0.k = 2\nz.k = 3\n"}, {"props", "z = 1\nz.k = 3\n"}, {"props", "y = 0\nz.k = 3\nz = 1\n"}, {"props", "a.b.c = 1\na.b = 2\n"},
			{"xml", "<a><b>1</b>"}, {"xml", "<a><b>1</b><c>"}, {"xml", "<a>text"}, {"json", "{\"a\": 1"}, {"json", "[1, 2"}, {"toml", "a = = 1\n"}, {"toml", "[t\nk = 1\n"},
			{"lua", "return {a = "}, {"csv", "a,b\n\"x\n"}, {"base64", "!!!"}}).Draw(t, "badfmt")
		for i, a := range c.Args {
			if strings.HasPrefix(a, "-o=") || a == "-N" || a == "-r" {
				c.Args[i] = "-o=json"
			}
		}
		c.Args = append(c.Args, "-p="+bad[0], "-o=json", "--expression", ".")
		c.Files = []string{bad[1]}
	case "encode_bytes":
		// a result the YAML emitter cannot write (a comment that is not UTF-8): reported, not dropped
		c.Args = append(c.Args, "--expression", rapid.SampledFrom([]string{`.a head_comment = ("/w==" | @base64d)`, `.a line_comment = ("gICA" | @base64d)`}).Draw(t, "ebx"))
		for i, a := range c.Args {
			if strings.HasPrefix(a, "-o=") {
				c.Args[i] = "-o=yaml"
			}
		}
		c.Files = []string{rapid.SampledFrom([]string{"a: 1\n", "a: 1\n---\na: 2\n", "a: {b: 1}\nc: 3\n"}).Draw(t, "ebdoc")}
	case "bad_args":
		// flag combinations that need a file, given none (stdin is not piped): a usage error, not a crash
		c.Args = rapid.SampledFrom([][]string{{"-i", ".a = 3"}, {"ea", "-i", ".a = 3"}, {"--front-matter=process", ".t = 1"}, {"ea", "--front-matter=extract", "."}, {"-n", "-i", ".a = 1"},
			{"-i", "-s", ".a", "."}, {"-i"}, {"-i", "--expression", ".a = 1"}, {"-n", ".a = 1", "WITHFILE"}}).Draw(t, "badargs")
		c.Files = nil
		if c.Args[len(c.Args)-1] == "WITHFILE" {
			// -n together with a file
			c.Args = c.Args[:len(c.Args)-1]
			c.Files = []string{pick()}
		}
	case "missing_file":
		c.Args = append(c.Args, "--expression", ".")
		c.Files = []string{pick()}
		c.Names = []string{"f0.yaml", "does-not-exist.yaml"}
	case "encode":
		enc := rapid.SampledFrom([][2]string{{"-o=csv", "a: {b: {c: 1}}\n"},
			// a key that is a sequence or a map (YAML only): formats whose keys are text cannot write it
			{"-o=json", "? [a, b]\n: v1\nz: 2\n"}, {"-o=props", "? {k: 1}\n: v1\nz: 2\n"}, {"-o=shell", "z: 2\n? {k: 1}\n: v1\n"}, {"-o=csv", "- ? [a]\n  : 1\n"}, {"-o=tsv", "- ? [a]\n  : 1\n"}, {"-o=json", "- a: {? [k]: 1}\n"}, {"-o=tsv", "a: {b: 1}\n"}, {"-o=xml", "- 1\n- 2\n"}, {"-o=toml", "a: {b: 1}\n"}, {"-o=base64", "a: 1\n"}, {"-o=uri", "- 1\n"}, {"-o=json", "a: .inf\n"}, {"-o=json", "a: .nan\n"}, {"-o=csv", "- a: {c: 2}\n- a: 1\n"}}).Draw(t, "enc")
		c.Args = []string{enc[0], "--expression", "."}
		c.Files = []string{enc[1]}
	case "bad_flag_value":
		c.Args = append(c.Args, rapid.SampledFrom([]string{"-o=nosuchformat", "-p=nosuchformat", "--front-matter=bogus", "-I=abc"}).Draw(t, "bf"), "--expression", ".")
		c.Files = []string{pick()}
	}
	return c
}

func checkFail(c FailCase) hx.Verdict {
	dir := workdir()
	args := append([]string{}, c.Args...)
	for i, content := range c.Files {
		name := fmt.Sprintf("f%d.yaml", i)
		p := filepath.Join(dir, name)
		_ = os.WriteFile(p, []byte(content), 0o644)
		args = append(args, p)
	}
	if len(c.Names) > 1 {
		_ = os.Remove(filepath.Join(dir, c.Names[1]))
		args = append(args, filepath.Join(dir, c.Names[1]))
	}
	r := run(args, nil)
	if crashed(r) {
		return hx.Bad("panic-site:binary", "yq crashed: %v stderr=%.400s", args, r.Stderr)
	}
	if c.Kind == "bad_flag_value" && c.Args[len(c.Args)-3] == "--front-matter=bogus" {
		// an unknown front-matter mode is documented as "(extract|process)"; it is accepted silently today
		if r.Exit == 0 {
			return hx.Unspec("front_matter_value_not_validated")
		}
	}
	if r.Exit == 0 {
		return hx.Bad("", "a %s failure went unreported: exit 0 (stdout %q stderr %q): args=%v files=%q", c.Kind, clip(r.Stdout), clip(r.Stderr), args, c.Files)
	}
	if strings.TrimSpace(r.Stderr) == "" {
		return hx.Bad("", "a %s failure gives exit %d but no message: args=%v", c.Kind, r.Exit, args)
	}
	return hx.OK(true, fmt.Sprint(args, c.Files), "fail:"+c.Kind)
}

func clip(s string) string {
	if len(s) > 200 {
		return s[:200] + "..."
	}
	return s
}

// ---------------------------------------------------------------------------
// -e

type ECase struct {
	Doc  string   `json:"doc"`
	Expr string   `json:"expr"`
	Mode string   `json:"mode"`
	Out  string   `json:"out"`
	More []string `json:"more"`
}

func genE(t *rapid.T) ECase {
	return ECase{
		Doc:  rapid.SampledFrom([]string{"a: 1\nb: false\nc: null\nd: []\ne: \"\"\nf: 0\n", "a: false\n", "a: null\n---\na: 5\n", "a: 5\n---\na: false\n", "a: false\n---\na: null\n", "[]\n", "", "a: {x: null}\n", "- false\n- null\n", "- false\n- 1\n"}).Draw(t, "doc"),
		Expr: rapid.SampledFrom([]string{".a", ".b", ".c", ".d", ".e", ".f", ".nope", ".[]", "select(.a == 5)", ".a // false", "false", "null", "0", "\"false\"", ".. | select(. == null)", "(.a, .b)", ".a.x", "[]", "{}", ".[] | select(. == 1)", "empty_placeholder"}).Draw(t, "expr"),
		Mode: rapid.SampledFrom([]string{"", "", "ea"}).Draw(t, "mode"),
		Out:  rapid.SampledFrom([]string{"", "-o=json", "-o=props", "-r=false", "-0", "-0"}).Draw(t, "out"),
	}
}

func checkE(c ECase) hx.Verdict {
	if c.Expr == "empty_placeholder" {
		c.Expr = ".[] | select(false)"
	}
	dir := workdir()
	f := filepath.Join(dir, "e.yaml")
	_ = os.WriteFile(f, []byte(c.Doc), 0o644)
	pre := []string{}
	if c.Mode != "" {
		pre = append(pre, c.Mode)
	}
	ref := run(append(append([]string{}, pre...), "-o=json", "-I=0", "--expression", c.Expr, f), nil)
	if crashed(ref) {
		return hx.Bad("panic-site:binary", "yq crashed: %q stderr=%.300s", c.Expr, ref.Stderr)
	}
	if ref.Exit != 0 {
		return hx.Unspec("reference_run_fails")
	}
	results, err := model.ParseJSONStream(ref.Stdout)
	if err != nil {
		return hx.Unspec("reference_unparseable")
	}
	allFalsy := true
	for _, r := range results {
		if !(r.K == model.Null || (r.K == model.Bool && !r.B)) {
			allFalsy = false
		}
	}
	wantExit := 0
	if len(results) == 0 || allFalsy {
		wantExit = 1
	}
	args := append(append([]string{}, pre...), "-e")
	if c.Out != "" {
		args = append(args, c.Out)
	}
	args = append(args, "--expression", c.Expr, f)
	r := run(args, nil)
	if crashed(r) {
		return hx.Bad("panic-site:binary", "yq crashed: %v", args)
	}
	if r.Exit != wantExit {
		return hx.Bad("", "-e: exit %d, expected %d for results %q (doc %q expr %q args %v) stderr=%q", r.Exit, wantExit, ref.Stdout, c.Doc, c.Expr, args, clip(r.Stderr))
	}
	if wantExit == 1 && strings.TrimSpace(r.Stderr) == "" {
		return hx.Bad("", "-e: exit 1 without a message: %v", args)
	}
	lab := "exit0"
	if wantExit == 1 {
		lab = "exit1"
	}
	return hx.OK(true, fmt.Sprint(args, c.Doc), "e:"+lab, fmt.Sprintf("nresults:%d", min(len(results), 3)))
}

func min(a, b int) int {
	if a < b {
		return a
	}
	return b
}

// ---------------------------------------------------------------------------
// -n

type NCase struct {
	Expr  string `json:"expr"`
	Stdin string `json:"stdin"`
	Out   string `json:"out"`
}

func checkN(c NCase) hx.Verdict {
	dir := workdir()
	p := filepath.Join(dir, "stdin.txt")
	_ = os.WriteFile(p, []byte(c.Stdin), 0o644)
	args := []string{"-n"}
	if c.Out != "" {
		args = append(args, c.Out)
	}
	args = append(args, "--expression", c.Expr)
	base := run(args, nil) // stdin: /dev/null
	if crashed(base) {
		return hx.Bad("panic-site:binary", "yq crashed: %v", args)
	}
	f, err := os.Open(p)
	if err != nil {
		return hx.Disc("open")
	}
	defer f.Close()
	r := hx.RunCmdFile(dir, hx.YqPath(), args, f, nil, 60*time.Second)
	off, _ := f.Seek(0, 1)
	if r.Timeout {
		return hx.Bad("", "-n blocks with stdin attached: %v", args)
	}
	if off != 0 {
		return hx.Bad("", "-n consumed %d bytes of stdin: %v", off, args)
	}
	if r.Stdout != base.Stdout || r.Exit != base.Exit {
		return hx.Bad("", "-n output depends on stdin: %q (exit %d) vs %q (exit %d): %v stdin=%q", r.Stdout, r.Exit, base.Stdout, base.Exit, args, c.Stdin)
	}
	return hx.OK(true, fmt.Sprint(args, c.Stdin), "null_input")
}

// ---------------------------------------------------------------------------
// auto-detection

type ACase struct {
	Ext   string `json:"ext"`
	Upper bool   `json:"upper"`
	Out   string `json:"out,omitempty"`   // an explicit -o next to the automatic input format
	Stem  string `json:"stem,omitempty"`  // file name before the extension (it may hold the name of another format)
	Stdin bool   `json:"stdin,omitempty"` // `-` (YAML on stdin) is given before the file: the first input decides the formats
}

var samples = map[string]string{
	"yaml": "a: 1\nb: [x, y]\ns: hello world\n", "json": "{\"a\": 1, \"b\": [\"x\", \"y\"], \"s\": \"hello world\"}\n", "xml": "<root><a>1</a><b>x</b><s>hello world</s></root>\n", "csv": "a,b,s\n1,x,hello world\n2,y,z\n", "tsv": "a\tb\ts\n1\tx\thello world\n",
	"toml": "a = 1\ns = \"hello world\"\n[t]\nb = \"x\"\n", "lua": "return {a = 1, b = {\"x\", \"y\"}, s = \"hello world\"}\n", "props": "a = 1\nb.c = x\ns = hello world\n",
}

// the names of one format are interchangeable
var formatAliases = map[string]string{"j": "json", "json": "json", "y": "yaml", "yml": "yaml", "yaml": "yaml", "p": "props", "props": "props", "properties": "props", "x": "xml", "xml": "xml",
	"c": "csv", "csv": "csv", "t": "tsv", "tsv": "tsv", "l": "lua", "lua": "lua", "s": "shell", "sh": "shell", "shell": "shell", "toml": "toml"}

var extFormat = map[string]string{"yaml": "yaml", "yml": "yaml", "y": "yaml", "json": "json", "j": "json", "xml": "xml", "x": "xml", "csv": "csv", "c": "csv", "tsv": "tsv", "t": "tsv", "toml": "toml", "lua": "lua", "l": "lua",
	"properties": "props", "props": "props", "p": "props", "txt": "yaml", "": "yaml", "md": "yaml", "conf": "yaml"}

func checkA(c ACase) hx.Verdict {
	format := extFormat[c.Ext]
	dir := workdir()
	name := "sample"
	if c.Stem != "" && c.Ext != "" {
		name = c.Stem // (with no extension of its own the stem's last part would be one)
	}
	ext := c.Ext
	if c.Upper {
		ext = strings.ToUpper(ext)
	}
	if ext != "" {
		name += "." + ext
	}
	p := filepath.Join(dir, name)
	_ = os.WriteFile(p, []byte(samples[format]), 0o644)
	defer os.Remove(p)
	auto := run([]string{".", p}, nil)
	if crashed(auto) {
		return hx.Bad("panic-site:binary", "yq crashed on %s: %.300s", name, auto.Stderr)
	}
	explicit := run([]string{"-p=" + format, "-o=" + format, ".", p}, nil)
	if explicit.Exit != 0 {
		return hx.Unspec("explicit_run_fails")
	}
	if auto.Exit != explicit.Exit || auto.Stdout != explicit.Stdout {
		return hx.Bad("", "auto-detected formats for %s differ from -p=%s -o=%s: exit %d %q vs exit %d %q (stderr %q)", name, format, format, auto.Exit, clip(auto.Stdout), explicit.Exit, clip(explicit.Stdout), clip(auto.Stderr))
	}
	if c.Stdin {
		// `yq . - file`: the first input is stdin, which has no extension: YAML in, YAML out, whatever the file is called
		a := run([]string{".", "-", p}, []byte("fromstdin: 1\n"))
		b := run([]string{"-p=yaml", "-o=yaml", ".", "-", p}, []byte("fromstdin: 1\n"))
		if crashed(a) {
			return hx.Bad("panic-site:binary", "yq crashed on `. - %s`: %.300s", name, a.Stderr)
		}
		if a.Exit != b.Exit || a.Stdout != b.Stdout {
			return hx.Bad("", "`yq . - %s` (YAML on stdin first) differs from the same with -p=yaml -o=yaml: exit %d %q (stderr %q) vs exit %d %q", name, a.Exit, clip(a.Stdout), clip(a.Stderr), b.Exit, clip(b.Stdout))
		}
	}
	if c.Out != "" {
		// an explicit output format stands, whatever the extension says about the input
		a := run([]string{"-o=" + c.Out, ".", p}, nil)
		b := run([]string{"-p=" + format, "-o=" + c.Out, ".", p}, nil)
		if crashed(a) {
			return hx.Bad("panic-site:binary", "yq crashed on -o=%s %s: %.300s", c.Out, name, a.Stderr)
		}
		if canon := formatAliases[c.Out]; canon != "" && canon != c.Out {
			k := run([]string{"-p=" + format, "-o=" + canon, ".", p}, nil)
			if k.Exit != b.Exit || k.Stdout != b.Stdout {
				return hx.Bad("", "`-o=%s` and `-o=%s` name the same format but print differently for %s: exit %d %q vs exit %d %q", c.Out, canon, name, b.Exit, clip(b.Stdout), k.Exit, clip(k.Stdout))
			}
		}
		if a.Exit != b.Exit || a.Stdout != b.Stdout {
			return hx.Bad("", "`-o=%s . %s` differs from `-p=%s -o=%s`: exit %d %q vs exit %d %q (stderr %q)", c.Out, name, format, c.Out, a.Exit, clip(a.Stdout), b.Exit, clip(b.Stdout), clip(a.Stderr))
		}
	}
	return hx.OK(true, name+" "+c.Out, "ext:"+c.Ext, "out:"+c.Out)
}

func TestProp(t *testing.T) {
	if hx.YqPath() == "" {
		t.Skip("no binary")
	}
	var exts []string
	for e := range extFormat {
		exts = append(exts, e)
	}
	exts = append(exts, "sh", "s", "shell")
	sortStrings(exts)
	hx.RunProperty(t,
		hx.NewSub("formats", 500, 5000, genFmt, checkFmt),
		hx.NewSub("failures", 300, 3000, genFail, checkFail),
		hx.NewSub("exit_status", 300, 3000, genE, checkE),
		hx.NewSub("multifile", 250, 2500, genMF, checkMF),
		hx.NewSub("split", 150, 1500, genSplit, checkSplit),
		hx.NewSub("cmd_vs_lib", 600, 6000, genCL, checkCL),
		hx.NewSub("null_input", 60, 600, func(t *rapid.T) NCase {
			return NCase{Expr: rapid.SampledFrom([]string{"1", "{\"a\": 1}", "\"x\"", ".", ".a = 1", "[1,2] | .[]", "null", ".a.b = \"c\""}).Draw(t, "expr"),
				Stdin: rapid.SampledFrom([]string{"a: 1\n", "", "x: [1,2]\n---\ny: 2\n", "not yaml: [\n", strings.Repeat("k: v\n", 5000)}).Draw(t, "stdin"),
				Out:   rapid.SampledFrom([]string{"", "-o=json", "-o=props"}).Draw(t, "out")}
		}, checkN),
		hx.NewSub("autodetect", 200, 1500, func(t *rapid.T) ACase {
			return ACase{Ext: rapid.SampledFrom(exts).Draw(t, "ext"), Upper: rapid.Bool().Draw(t, "upper"),
				Stem:  rapid.SampledFrom([]string{"", "", "settings.json", "application.properties", "pom.xml", "v1.x", "data.csv", "a.b.c", "x.yaml", ".hidden"}).Draw(t, "stem"),
				Stdin: rapid.IntRange(0, 3).Draw(t, "stdinfirst") == 0,
				Out:   rapid.SampledFrom([]string{"", "json", "j", "yaml", "yml", "y", "props", "properties", "p", "xml", "x", "shell", "sh", "s", "lua", "l", "csv", "c", "tsv", "t", "toml"}).Draw(t, "out")}
		}, checkAWrap),
	)
}

func checkAWrap(c ACase) hx.Verdict {
	if _, ok := extFormat[c.Ext]; !ok {
		// formats that exist only as output formats (shell): a file with that extension must be answered, not crash
		dir := workdir()
		name := "sample." + c.Ext
		p := filepath.Join(dir, name)
		_ = os.WriteFile(p, []byte("a=1\n"), 0o644)
		defer os.Remove(p)
		r := run([]string{".", p}, nil)
		if crashed(r) {
			return hx.Bad("panic-site:cmd.configureDecoder: nil func", "yq crashed on a file named %s: %.300s", name, r.Stderr)
		}
		if r.Exit == 0 && strings.TrimSpace(r.Stdout) == "" {
			return hx.Bad("", "a file named %s gives exit 0 and no output", name)
		}
		return hx.OK(true, name, "ext:"+c.Ext)
	}
	return checkA(c)
}

func sortStrings(s []string) {
	for i := range s {
		for j := i + 1; j < len(s); j++ {
			if s[j] < s[i] {
				s[i], s[j] = s[j], s[i]
			}
		}
	}
}
