package c19

import (
	"fmt"
	"os"
	"path/filepath"
	"strconv"
	"strings"

	"github.com/mikefarah/yq/v4/pkg/yqlib"
	"pgregory.net/rapid"
	"verif/hx"
)

// Sub "cmd_vs_lib": what the command prints for (expression, input, -p, -o, mode, format and printer flags) is what
// the library prints when it is configured the way the flags are documented to configure it. The harness's reading of
// the flags (hx.ApplyOpts plus the table below: one line per flag, the preference it sets) is the reference model of
// the command layer; the binary is the thing judged. A flag that is dropped, applied to the wrong format, or decided
// by the wrong name of a format shows as a difference.

type CLCase struct {
	Expr    string   `json:"expr"`
	Input   string   `json:"input"`
	In      string   `json:"in"`
	Out     string   `json:"out"`
	EvalAll bool     `json:"eval_all"`
	Flags   []string `json:"flags"`
}

var clFlags = []string{"no-doc", "indent=0", "indent=4", "indent=1", "unwrapScalar=false", "unwrapScalar=true", "nul-output",
	"xml-attribute-prefix=@", "xml-content-name=txt", "xml-skip-proc-inst", "xml-skip-directives", "xml-proc-inst-prefix=pi_", "xml-directive-name=dir", "xml-keep-namespace=false",
	"csv-separator=;", "csv-auto-parse=false", "tsv-auto-parse=false", "properties-separator=:", "properties-separator= ", "properties-array-brackets",
	"lua-globals", "lua-unquoted", "lua-prefix=x = ", "lua-suffix=;", "string-interpolation=false", "header-preprocess=false",
	// flags of the command itself: pretty print (the expression is piped into `... style=""`), colours, the old -j, the expression in a file
	"prettyPrint", "colors", "no-colors", "tojson", "from-file"}

var clExprs = []string{".", ".", ".a", ".[]", "..", ".s", "[.a, .s]", ".b", "keys", "length", `"\(.a)-\(.s)"`, ".a | tostring", ". as $x | $x.s", "to_entries", ".b[0]", `{"k": .s}`, "[.. | select(tag == \"!!str\")]", ".root", ".root.s", ".[0]", ".t",
	// a comment at the end of the expression (with and without a line end), brackets that do not balance
	".a # the a", ".s # note\n", ". # all\n", ".a) | (.b", "(.a", ".a | (.s))", "[.a, .s] # pair"}

var clInputs = map[string][]string{
	"yaml":  {"a: 1\nb: [x, y]\ns: hello world\n", "# head\na: 1 # line\nb:\n  - x\n  - y\ns: 'hello world'\n---\na: 2\ns: two\n", "- {a: 1, s: p q}\n- {a: 2, s: r}\n", "a: &x {k: v}\nb: [*x]\ns: \"q\"\n"},
	"json":  {"{\"a\": 1, \"b\": [\"x\", \"y\"], \"s\": \"hello world\"}\n", "[{\"a\": 1, \"s\": \"p q\"}, {\"a\": 2, \"s\": \"r\"}]\n"},
	"xml":   {"<?xml version=\"1.0\"?>\n<!DOCTYPE root>\n<root id=\"7\"><a>1</a><b>x</b><b>y</b><s lang=\"en\">hello world</s></root>\n", "<root><a>1</a><s>hello world</s></root>\n"},
	"csv":   {"a,b,s\n1,x,hello world\n2,y,z\n", "a;b;s\n1;x;hello world\n"},
	"tsv":   {"a\tb\ts\n1\tx\thello world\n"},
	"toml":  {"a = 1\ns = \"hello world\"\nb = [\"x\", \"y\"]\n[t]\nk = \"v\"\n"},
	"lua":   {"return {a = 1, b = {\"x\", \"y\"}, s = \"hello world\"}\n"},
	"props": {"a = 1\nb.0 = x\nb.1 = y\ns = hello world\n", "a:1\ns hello world\n"},
}

func genCL(t *rapid.T) CLCase {
	c := CLCase{Expr: rapid.SampledFrom(clExprs).Draw(t, "expr"), EvalAll: rapid.IntRange(0, 4).Draw(t, "ea") == 0}
	var ins []string
	for f := range clInputs {
		ins = append(ins, f)
	}
	sortStrings(ins)
	c.In = rapid.SampledFrom(ins).Draw(t, "in")
	c.Input = rapid.SampledFrom(clInputs[c.In]).Draw(t, "input")
	c.Out = rapid.SampledFrom([]string{"yaml", "json", "props", "xml", "csv", "tsv", "lua", "shell", "yaml", "json"}).Draw(t, "out")
	if rapid.Bool().Draw(t, "same") {
		c.Out = c.In
	}
	// the other names of the formats
	alias := map[string][]string{"yaml": {"yaml", "yml", "y"}, "json": {"json", "j"}, "props": {"props", "properties", "p"}, "xml": {"xml", "x"}, "csv": {"csv", "c"}, "tsv": {"tsv", "t"}, "lua": {"lua", "l"}, "shell": {"shell", "sh", "s"}}
	if rapid.IntRange(0, 2).Draw(t, "aliasnames") == 0 {
		if a, ok := alias[c.Out]; ok {
			c.Out = rapid.SampledFrom(a).Draw(t, "outname")
		}
		if a, ok := alias[c.In]; ok {
			c.In = rapid.SampledFrom(a).Draw(t, "inname")
		}
	}
	c.Flags = rapid.SliceOfNDistinct(rapid.SampledFrom(clFlags), 0, 3, func(s string) string { return strings.SplitN(s, "=", 2)[0] }).Draw(t, "flags")
	if rapid.IntRange(0, 7).Draw(t, "prettyscenario") == 0 {
		// pretty printing is text appended to the expression: what the expression ends in (a comment, a line end,
		// coming from a file) decides whether it still applies - on a document whose style is not the idiomatic one
		c.In, c.Out = "yaml", "yaml"
		c.Input = rapid.SampledFrom([]string{"a: {b: \"new\", l: [1, 2]}\n\"q\": 'yes'\n", clInputs["yaml"][1], clInputs["yaml"][0]}).Draw(t, "pinput")
		c.Expr = rapid.SampledFrom([]string{".", ". # all", ". # all\n", ".a # the a", ".a |= . # same", "# first line\n. # last line", ".b", ". | . # piped\n\n", "  .  "}).Draw(t, "pexpr")
		c.Flags = []string{"prettyPrint"}
		if rapid.Bool().Draw(t, "pfile") {
			c.Flags = append(c.Flags, "from-file")
		}
		if rapid.IntRange(0, 3).Draw(t, "pextra") == 0 {
			c.Flags = append(c.Flags, rapid.SampledFrom([]string{"no-doc", "indent=4", "unwrapScalar=false"}).Draw(t, "pflag"))
		}
	}
	return c
}

// libOpts: the documented effect of each flag, as preferences of the library
func (c CLCase) libOpts() hx.Opts {
	o := hx.Opts{In: c.In, Out: c.Out, EvalAll: c.EvalAll}
	var tweaks []func()
	for _, p := range c.Flags {
		name, val, has := strings.Cut(p, "=")
		on := !has || val == "true"
		switch name {
		case "no-doc":
			o.NoDocSep = true
		case "nul-output":
			o.NulSep = true
		case "indent":
			n, _ := strconv.Atoi(val)
			o.Indent, o.IndentSet = n, true
		case "unwrapScalar":
			b := on
			o.Unwrap = &b
		case "lua-globals":
			tweaks = append(tweaks, func() { yqlib.ConfiguredLuaPreferences.Globals = on })
		case "lua-unquoted":
			tweaks = append(tweaks, func() { yqlib.ConfiguredLuaPreferences.UnquotedKeys = on })
		case "lua-prefix":
			tweaks = append(tweaks, func() { yqlib.ConfiguredLuaPreferences.DocPrefix = val })
		case "lua-suffix":
			tweaks = append(tweaks, func() { yqlib.ConfiguredLuaPreferences.DocSuffix = val })
		case "xml-keep-namespace":
			tweaks = append(tweaks, func() { yqlib.ConfiguredXMLPreferences.KeepNamespace = on })
		case "xml-skip-proc-inst":
			tweaks = append(tweaks, func() { yqlib.ConfiguredXMLPreferences.SkipProcInst = on })
		case "xml-skip-directives":
			tweaks = append(tweaks, func() { yqlib.ConfiguredXMLPreferences.SkipDirectives = on })
		case "xml-attribute-prefix":
			tweaks = append(tweaks, func() { yqlib.ConfiguredXMLPreferences.AttributePrefix = val })
		case "xml-content-name":
			tweaks = append(tweaks, func() { yqlib.ConfiguredXMLPreferences.ContentName = val })
		case "xml-proc-inst-prefix":
			tweaks = append(tweaks, func() { yqlib.ConfiguredXMLPreferences.ProcInstPrefix = val })
		case "xml-directive-name":
			tweaks = append(tweaks, func() { yqlib.ConfiguredXMLPreferences.DirectiveName = val })
		case "csv-auto-parse":
			tweaks = append(tweaks, func() { yqlib.ConfiguredCsvPreferences.AutoParse = on })
		case "csv-separator":
			tweaks = append(tweaks, func() { yqlib.ConfiguredCsvPreferences.Separator = []rune(val)[0] })
		case "tsv-auto-parse":
			tweaks = append(tweaks, func() { yqlib.ConfiguredTsvPreferences.AutoParse = on })
		case "properties-separator":
			tweaks = append(tweaks, func() { yqlib.ConfiguredPropertiesPreferences.KeyValueSeparator = val })
		case "properties-array-brackets":
			tweaks = append(tweaks, func() { yqlib.ConfiguredPropertiesPreferences.UseArrayBrackets = on })
		case "string-interpolation":
			tweaks = append(tweaks, func() { yqlib.StringInterpolationEnabled = on })
		case "header-preprocess":
			tweaks = append(tweaks, func() { yqlib.ConfiguredYamlPreferences.LeadingContentPreProcessing = on })
		}
	}
	if len(tweaks) > 0 {
		o.Tweak = func() {
			for _, f := range tweaks {
				f()
			}
		}
	}
	return o
}

func has(fl []string, name string) bool {
	for _, f := range fl {
		if f == name {
			return true
		}
	}
	return false
}

func checkCL(c CLCase) hx.Verdict {
	lo := c.libOpts()
	expr := c.Expr
	if has(c.Flags, "from-file") && !strings.HasSuffix(expr, "\n") {
		expr += "\n" // an expression file ends in a line end, which is part of the expression text
	}
	expr0 := expr
	if has(c.Flags, "prettyPrint") {
		expr = expr + " | " + yqlib.PrettyPrintExp
	}
	if has(c.Flags, "tojson") {
		lo.Out = "json"
	}
	if has(c.Flags, "colors") {
		prev := lo.Tweak
		lo.Tweak = func() {
			if prev != nil {
				prev()
			}
			yqlib.ConfiguredYamlPreferences.ColorsEnabled = true
			yqlib.ConfiguredJSONPreferences.ColorsEnabled = true
		}
	}
	lib := hx.Run(expr, c.Input, lo)
	if lib.Crashed() || lib.Timeout {
		return hx.Unspec("library_crash_or_timeout") // C11's matter
	}
	var args []string
	if c.EvalAll {
		args = append(args, "ea")
	}
	args = append(args, "-p="+c.In)
	if !has(c.Flags, "tojson") {
		args = append(args, "-o="+c.Out)
	}
	fromFile := false
	for _, f := range c.Flags {
		if f == "from-file" {
			fromFile = true
			continue
		}
		args = append(args, "--"+f)
	}
	if fromFile {
		ef := filepath.Join(workdir(), "expr.yq")
		_ = os.WriteFile(ef, []byte(expr0), 0o644)
		args = append(args, "--from-file", ef, "-")
	} else {
		args = append(args, "--expression", c.Expr, "-")
	}
	bin := run(args, []byte(c.Input))
	if crashed(bin) {
		return hx.Bad("panic-site:binary", "yq crashed: %v %.300s", args, bin.Stderr)
	}
	if bin.Timeout {
		return hx.Unspec("slow_binary")
	}
	labels := []string{"in:" + c.In, "out:" + c.Out, fmt.Sprintf("flags:%d", len(c.Flags))}
	if (bin.Exit == 0) != (lib.Err == "") {
		return hx.Bad("", "the command exits %d (stderr %q) but the library, configured as the flags say, %s: args=%q stdin=%q", bin.Exit, clip(bin.Stderr), map[bool]string{true: "succeeds", false: "fails with " + lib.Err}[lib.Err == ""], args, c.Input)
	}
	if bin.Exit != 0 {
		return hx.OK(false, fmt.Sprint(args, c.Input), append(labels, "both_fail")...)
	}
	if bin.Stdout != lib.Out {
		return hx.Bad("", "the command prints something else than the library configured as the flags say:\nargs=%q stdin=%q\ncommand: %q\nlibrary: %q", args, c.Input, bin.Stdout, lib.Out)
	}
	return hx.OK(len(c.Flags) > 0 || c.In != c.Out, fmt.Sprint(args, c.Input), labels...)
}
