package c19

import (
	"fmt"
	"os"
	"path/filepath"
	"strings"

	"pgregory.net/rapid"
	"verif/hx"
	"verif/model"
)

// several input files of one format: every file's content must be in the output (or the run must fail), in
// sequence mode and in eval-all mode, with -0 as well; a malformed later file must make the run fail.

type MFCase struct {
	Format    string     `json:"format"`
	Files     [][]string `json:"files"` // per file: alternating unique key / value tokens (a flat map)
	Mode      string     `json:"mode"`  // "", "ea"
	Out       string     `json:"out"`
	Nul       bool       `json:"nul"`
	BadAt     int        `json:"bad_at"`               // index of a file replaced by malformed text, -1 for none
	EmptyLast bool       `json:"empty_last,omitempty"` // an empty file (no bytes) is given after the others
	Cut       int        `json:"cut,omitempty"`        // > 0: the malformed file is the well-formed text cut off after that many per mille of its bytes
}

var mfFormats = []string{"yaml", "json", "props", "toml", "lua", "xml", "csv", "tsv"}

func genMF(t *rapid.T) MFCase {
	g := &tokgen{t: t}
	c := MFCase{Format: rapid.SampledFrom(mfFormats).Draw(t, "format"), Mode: rapid.SampledFrom([]string{"", "", "ea"}).Draw(t, "mode"),
		Out: rapid.SampledFrom([]string{"json", "yaml", "props", "json"}).Draw(t, "out"), Nul: rapid.IntRange(0, 3).Draw(t, "nul") == 0, BadAt: -1}
	for i := rapid.IntRange(2, 4).Draw(t, "nfiles"); i > 0; i-- {
		var kv []string
		for j := rapid.IntRange(1, 3).Draw(t, "nkv"); j > 0; j-- {
			kv = append(kv, g.key(), g.str())
		}
		c.Files = append(c.Files, kv)
	}
	c.EmptyLast = rapid.IntRange(0, 3).Draw(t, "emptylast") == 0
	if rapid.IntRange(0, 3).Draw(t, "bad") == 0 {
		c.BadAt = rapid.IntRange(1, len(c.Files)-1).Draw(t, "badat")
		if rapid.Bool().Draw(t, "truncated") {
			c.Cut = rapid.IntRange(100, 950).Draw(t, "cut")
		}
	}
	return c
}

func mfText(format string, kv []string) string {
	var b strings.Builder
	switch format {
	case "yaml":
		for i := 0; i < len(kv); i += 2 {
			fmt.Fprintf(&b, "%s: %s\n", kv[i], kv[i+1])
		}
	case "json":
		b.WriteString("{")
		for i := 0; i < len(kv); i += 2 {
			if i > 0 {
				b.WriteString(", ")
			}
			fmt.Fprintf(&b, "%q: %q", kv[i], kv[i+1])
		}
		b.WriteString("}\n")
	case "props":
		for i := 0; i < len(kv); i += 2 {
			fmt.Fprintf(&b, "%s = %s\n", kv[i], kv[i+1])
		}
	case "toml":
		for i := 0; i < len(kv); i += 2 {
			fmt.Fprintf(&b, "%s = %q\n", kv[i], kv[i+1])
		}
	case "lua":
		b.WriteString("return {")
		for i := 0; i < len(kv); i += 2 {
			fmt.Fprintf(&b, "%s = %q; ", kv[i], kv[i+1])
		}
		b.WriteString("}\n")
	case "xml":
		b.WriteString("<root>")
		for i := 0; i < len(kv); i += 2 {
			fmt.Fprintf(&b, "<%s>%s</%s>", kv[i], kv[i+1], kv[i])
		}
		b.WriteString("</root>\n")
	case "csv", "tsv":
		sep := ","
		if format == "tsv" {
			sep = "\t"
		}
		var ks, vs []string
		for i := 0; i < len(kv); i += 2 {
			ks = append(ks, kv[i])
			vs = append(vs, kv[i+1])
		}
		b.WriteString(strings.Join(ks, sep) + "\n" + strings.Join(vs, sep) + "\n")
	}
	return b.String()
}

var mfMalformed = map[string]string{
	"yaml": "a: [1, 2\nb: }\n", "json": "{\"a\": \n", "props": "", "toml": "a = = 1\n[[\n", "lua": "return {a = \n", "xml": "<a><", "csv": "a,b\n\"x\n", "tsv": "a\tb\n\"x\n",
}

func checkMF(c MFCase) hx.Verdict {
	dir := filepath.Join(workdir(), "mf")
	_ = os.RemoveAll(dir)
	_ = os.MkdirAll(dir, 0o755)
	bad := c.BadAt
	if bad >= 0 && mfMalformed[c.Format] == "" {
		bad = -1 // every text is a properties file
	}
	var files []string
	for i, kv := range c.Files {
		p := filepath.Join(dir, fmt.Sprintf("f%d.%s", i, c.Format))
		txt := mfText(c.Format, kv)
		if i == bad {
			if c.Cut > 0 && (c.Format == "xml" || c.Format == "json") && len(txt) > 8 {
				// a download that broke off: every proper prefix of these texts (past the opening bracket) is malformed
				n := 2 + (len(txt)-4)*c.Cut/1000
				txt = txt[:n]
			} else {
				txt = mfMalformed[c.Format]
			}
		}
		_ = os.WriteFile(p, []byte(txt), 0o644)
		files = append(files, p)
	}
	if c.EmptyLast && bad < 0 && (c.Format == "yaml" || c.Format == "json") {
		// an empty file holds no document: it adds no result of its own
		p := filepath.Join(dir, fmt.Sprintf("f%d.%s", len(c.Files), c.Format))
		_ = os.WriteFile(p, nil, 0o644)
		files = append(files, p)
	}
	args := []string{}
	if c.Mode != "" {
		args = append(args, c.Mode)
	}
	args = append(args, "-p="+c.Format, "-o="+c.Out)
	if c.Nul {
		args = append(args, "-0")
	}
	args = append(args, ".")
	args = append(args, files...)
	r := run(args, nil)
	if crashed(r) {
		return hx.Bad("panic-site:binary", "yq crashed: %v stderr=%.400s", args, r.Stderr)
	}
	labels := []string{"mf:" + c.Format, "mf_out:" + c.Out}
	if bad >= 0 {
		if r.Exit == 0 {
			return hx.Bad("", "file %d of %d is malformed %s but the run exits 0: args=%v stdout=%q", bad, len(files), c.Format, args, clip(r.Stdout))
		}
		if strings.TrimSpace(r.Stderr) == "" {
			return hx.Bad("", "exit %d without a message on stderr: %v", r.Exit, args)
		}
		return hx.OK(true, fmt.Sprint(args, c.Files), append(labels, "mf_malformed_later_file")...)
	}
	if r.Exit != 0 {
		return hx.Bad("", "well-formed %s files rejected (exit %d, %q): %v", c.Format, r.Exit, clip(r.Stderr), args)
	}
	for i, kv := range c.Files {
		for _, tok := range kv {
			if !strings.Contains(r.Stdout, tok) {
				return hx.Bad("", "exit 0 but %q from input file %d of %d is not in the output: args=%v output=%q", tok, i, len(files), args, clip(r.Stdout))
			}
		}
	}
	if c.Out == "json" && !c.Nul {
		// as many results as there are files with content (each holds one document)
		if vs, err := model.ParseJSONStream(r.Stdout); err == nil && len(vs) != len(c.Files) {
			return hx.Bad("", "%d files with one document each give %d results: args=%v output=%q", len(c.Files), len(vs), args, clip(r.Stdout))
		}
	}
	if c.Nul && !strings.Contains(r.Stdout, "\x00") {
		return hx.Bad("", "-0 output has no NUL separator: %v %q", args, clip(r.Stdout))
	}
	return hx.OK(true, fmt.Sprint(args, c.Files), labels...)
}
