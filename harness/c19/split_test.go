package c19

import (
	"fmt"
	"os"
	"path/filepath"
	"strings"

	"pgregory.net/rapid"
	"verif/hx"
	"verif/model"
)

// Sub "split": with --split-exp every result goes to the file its name expression gives; exit 0 means every result
// is in its file, completely - several results of one document, results of several documents and files, eval-all.

type SplitCase struct {
	Docs  [][]string `json:"docs"` // per document: the tokens of its elements (one map per element)
	Files int        `json:"files"`
	Mode  string     `json:"mode"` // "", "ea"
	Expr  string     `json:"expr"` // ".[]" | "."
	Out   string     `json:"out"`
}

func genSplit(t *rapid.T) SplitCase {
	g := &tokgen{t: t}
	c := SplitCase{Mode: rapid.SampledFrom([]string{"", "", "ea"}).Draw(t, "mode"), Expr: rapid.SampledFrom([]string{".[]", ".[]", "."}).Draw(t, "expr"),
		Out: rapid.SampledFrom([]string{"yaml", "json", "props"}).Draw(t, "out"), Files: rapid.IntRange(1, 2).Draw(t, "files")}
	for i := rapid.IntRange(1, 3).Draw(t, "ndocs"); i > 0; i-- {
		var toks []string
		for j := rapid.IntRange(1, 4).Draw(t, "nel"); j > 0; j-- {
			toks = append(toks, g.str())
		}
		c.Docs = append(c.Docs, toks)
	}
	return c
}

func checkSplit(c SplitCase) hx.Verdict {
	dir := filepath.Join(workdir(), "split")
	_ = os.RemoveAll(dir)
	_ = os.MkdirAll(dir, 0o755)
	// documents: sequences of one-key maps {"v": token}
	var texts []string
	var results [][]string // tokens each result must hold
	for _, d := range c.Docs {
		s := model.NewSeq()
		for _, tk := range d {
			s.Elem = append(s.Elem, model.NewMap().Set("v", model.NewStr(tk)))
			if c.Expr == ".[]" {
				results = append(results, []string{tk})
			}
		}
		if c.Expr == "." {
			results = append(results, d)
		}
		texts = append(texts, s.JSON())
	}
	var names []string
	per := (len(texts) + c.Files - 1) / c.Files
	for f := 0; f*per < len(texts); f++ {
		end := (f + 1) * per
		if end > len(texts) {
			end = len(texts)
		}
		name := fmt.Sprintf("in%d.yaml", f)
		_ = os.WriteFile(filepath.Join(dir, name), []byte(strings.Join(texts[f*per:end], "\n---\n")+"\n"), 0o644)
		names = append(names, name)
	}
	var args []string
	if c.Mode == "ea" {
		args = append(args, "ea")
	}
	args = append(args, "-o="+c.Out, "-s", `"out" + ($index | tostring)`, "--expression", c.Expr)
	r := hx.RunBin(dir, append(args, names...), nil, nil, 60*1e9)
	if crashed(r) {
		return hx.Bad("panic-site:binary", "yq crashed: %v %.300s", args, r.Stderr)
	}
	if r.Exit != 0 {
		if strings.TrimSpace(r.Stderr) == "" {
			return hx.Bad("", "exit %d without a message: %v", r.Exit, args)
		}
		return hx.Unspec("split_run_fails")
	}
	ext := map[string]string{"yaml": "yml", "json": "json", "props": "properties"}[c.Out]
	for i, want := range results {
		b, err := os.ReadFile(filepath.Join(dir, fmt.Sprintf("out%d.%s", i, ext)))
		if err != nil {
			return hx.Bad("", "exit 0 but no file for result %d (%v): args=%v docs=%q", i, err, args, texts)
		}
		for _, tk := range want {
			if !strings.Contains(string(b), tk) {
				return hx.Bad("", "exit 0 but %q, part of result %d, is not in its file (which holds %q): args=%v docs=%q", tk, i, string(b), args, texts)
			}
		}
		for j, other := range results {
			if j == i {
				continue
			}
			for _, tk := range other {
				if strings.Contains(string(b), tk) {
					return hx.Bad("", "the file of result %d holds %q, part of result %d: %q args=%v", i, tk, j, string(b), args)
				}
			}
		}
	}
	return hx.OK(len(results) >= 2, fmt.Sprint(c), "split", "mode:"+c.Mode, "expr:"+c.Expr, "out:"+c.Out)
}
