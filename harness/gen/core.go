package gen

import (
	"math/big"

	"pgregory.net/rapid"
	"verif/model"
	"verif/ref"
)

// ---------------------------------------------------------------------------
// JSON-model documents

var docKeys = []string{"a", "b", "c", "d", "e", "aa", "ab", "k", "v", "id"}

var docStrings = []string{"", "a", "b", "abc", "cat", "dog", "a b", "x,y", "true", "1", "null", "~", "0x1F", "<<", "é", "日本", "😀", "line\nbreak", "tab\there", "quote\"q", "back\\slash", "foo", "foobar", "bar", " lead", "trail ", "#hash", "- dash", "key: val", "[x]", "{y}", "&anc", "!tag", "%pc", "@at", "`bt", "'sq'", "2021-01-01"}

// DocOpts tunes the document generator.
type DocOpts struct {
	Depth, Width int
	Distinct     bool // make scalar leaves pairwise distinct where possible
	NoFloats     bool
	SimpleStr    bool // only plain ASCII words
}

type docGen struct {
	t    *rapid.T
	o    DocOpts
	next int64
}

func (g *docGen) scalar() *model.Value {
	t := g.t
	if g.o.Distinct && rapid.IntRange(0, 9).Draw(t, "dk") < 8 {
		g.next++
		if rapid.Bool().Draw(t, "ds") {
			return model.NewStr("s" + big.NewInt(g.next).String())
		}
		return model.NewInt(100 + g.next)
	}
	switch rapid.IntRange(0, 11).Draw(t, "sk") {
	case 0:
		return model.NewNull()
	case 1:
		return model.NewBool(rapid.Bool().Draw(t, "b"))
	case 2, 3, 4:
		if rapid.IntRange(0, 7).Draw(t, "bigi") == 0 {
			return model.NewInt(int64(rapid.SampledFrom([]int{9007199254740992, 9007199254740993, 9007199254740995, -9007199254740993, 4611686018427387905, 9223372036854775806}).Draw(t, "ibig")))
		}
		return model.NewInt(int64(rapid.SampledFrom([]int{0, 1, 2, 3, 5, 7, 10, -1, -2, -7, 42, 100, 1000, 65536, 2147483647, -2147483648, 4294967296, 9007199254740991, 9007199254740992, 9007199254740993, 9007199254740994, -9007199254740993, 9223372036854775806, 9223372036854775807}).Draw(t, "i")))
	case 5:
		if g.o.NoFloats {
			return model.NewInt(int64(rapid.IntRange(-5, 5).Draw(t, "i2")))
		}
		return model.NewFloat(rapid.SampledFrom([]float64{0.5, 1.5, -2.5, 3.25, 0.1, 100.75, 1e3 + 0.5, -0.125, 2.5e-3}).Draw(t, "f"))
	default:
		if g.o.SimpleStr {
			return model.NewStr(rapid.SampledFrom([]string{"a", "b", "abc", "cat", "dog", "foo", "foobar", "bar", "x"}).Draw(t, "ss"))
		}
		return model.NewStr(rapid.SampledFrom(docStrings).Draw(t, "s"))
	}
}

func (g *docGen) value(depth int) *model.Value {
	t := g.t
	if depth <= 0 {
		return g.scalar()
	}
	switch rapid.IntRange(0, 9).Draw(t, "vk") {
	case 0, 1, 2:
		return g.scalar()
	case 3, 4, 5:
		n := rapid.IntRange(0, g.o.Width).Draw(t, "mn")
		m := model.NewMap()
		for i := 0; i < n; i++ {
			k := rapid.SampledFrom(docKeys).Draw(t, "key")
			if _, dup := m.Get(k); dup {
				continue
			}
			m.Set(k, g.value(depth-1))
		}
		return m
	case 6, 7, 8:
		n := rapid.IntRange(0, g.o.Width).Draw(t, "sn")
		s := model.NewSeq()
		// homogeneous sequences are more useful to sort/compare/group
		homog := rapid.IntRange(0, 3).Draw(t, "homog")
		for i := 0; i < n; i++ {
			switch homog {
			case 0:
				s.Elem = append(s.Elem, g.value(depth-1))
			case 1:
				s.Elem = append(s.Elem, model.NewInt(int64(rapid.IntRange(-3, 9).Draw(t, "hi"))))
			case 3:
				// a sequence of sequences of different lengths
				in := model.NewSeq()
				for j := rapid.IntRange(0, 5).Draw(t, "inl"); j > 0; j-- {
					in.Elem = append(in.Elem, g.scalar())
				}
				s.Elem = append(s.Elem, in)
			default:
				m := model.NewMap()
				m.Set("k", model.NewInt(int64(rapid.IntRange(0, 3).Draw(t, "hk"))))
				m.Set("v", g.scalar())
				if rapid.Bool().Draw(t, "extra") {
					m.Set(rapid.SampledFrom(docKeys).Draw(t, "ek"), g.value(depth-2))
				}
				s.Elem = append(s.Elem, m)
			}
		}
		return s
	default:
		return g.value(depth - 1)
	}
}

// JSONDoc builds a document value.
func JSONDoc(t *rapid.T, o DocOpts) *model.Value {
	if o.Depth == 0 {
		o.Depth = 3
	}
	if o.Width == 0 {
		o.Width = 4
	}
	g := &docGen{t: t, o: o}
	// the root is a container 9 times out of 10
	for i := 0; i < 3; i++ {
		v := g.value(o.Depth)
		if !v.IsScalar() || rapid.IntRange(0, 9).Draw(t, "rootscalar") == 0 {
			return v
		}
	}
	m := model.NewMap()
	m.Set("a", g.value(o.Depth-1))
	m.Set("b", g.value(o.Depth-1))
	return m
}

// ---------------------------------------------------------------------------
// Core-fragment expressions, type-directed against the actual document: while
// generating, the reference is evaluated on the prefix, so the next production
// is (usually) chosen to fit the kind of the current values.

type exprGen struct {
	t    *rapid.T
	vars []string
}

func ip(i int) *int { return &i }

// litE makes a literal. yq's string literals only understand a few escapes, so
// strings with control characters, quotes or backslashes are replaced.
func litE(v *model.Value) *ref.E {
	if v.K == model.Str {
		for _, r := range v.S {
			if r < 0x20 || r == '"' || r == '\\' || r == 0x7f {
				return &ref.E{Op: "lit", Lit: model.NewStr("abc").JSON()}
			}
		}
	}
	return &ref.E{Op: "lit", Lit: v.JSON()}
}

func (g *exprGen) scalarLit() *ref.E {
	t := g.t
	switch rapid.IntRange(0, 8).Draw(t, "lk") {
	case 0, 1, 2:
		return litE(model.NewInt(int64(rapid.SampledFrom([]int{0, 1, 2, 3, 5, -1, -2, 10, 100, 9007199254740992, 9007199254740993, 9223372036854775806}).Draw(t, "li"))))
	case 3:
		return litE(model.NewFloat(rapid.SampledFrom([]float64{0.5, 1.5, -2.5, 2.25}).Draw(t, "lf")))
	case 4, 5:
		return litE(model.NewStr(rapid.SampledFrom([]string{"a", "b", "abc", "cat", "x", "", "foo", "bar", ",", " "}).Draw(t, "ls")))
	case 6:
		return litE(model.NewBool(rapid.Bool().Draw(t, "lb")))
	case 7:
		return litE(model.NewNull())
	default:
		return litE(model.NewInt(int64(rapid.IntRange(-3, 12).Draw(t, "li2"))))
	}
}

func kindOf(ctx []*model.Value) model.Kind {
	if len(ctx) == 0 || ctx[0] == nil {
		return model.Null
	}
	return ctx[0].K
}

func (g *exprGen) evalOr(e *ref.E, ctx []*model.Value, env ref.Env) []*model.Value {
	r, err := ref.Eval(e, ctx, env)
	if err != nil {
		return nil
	}
	if len(r) > 40 {
		r = r[:40]
	}
	return r
}

// keyOf picks a key that (mostly) exists.
func (g *exprGen) keyOf(c *model.Value) string {
	if c != nil && c.K == model.Map && len(c.Keys) > 0 && rapid.IntRange(0, 9).Draw(g.t, "hit") < 8 {
		return rapid.SampledFrom(c.Keys).Draw(g.t, "xk")
	}
	return rapid.SampledFrom(docKeys).Draw(g.t, "rk")
}

func first(ctx []*model.Value) *model.Value {
	if len(ctx) == 0 {
		return nil
	}
	return ctx[0]
}

// step generates one operator application suited (mostly) to ctx.
func (g *exprGen) step(ctx []*model.Value, env ref.Env, depth int) *ref.E {
	t := g.t
	c := first(ctx)
	k := kindOf(ctx)
	offType := rapid.IntRange(0, 99).Draw(t, "off") < 6
	if offType {
		k = model.Kind(rapid.IntRange(0, 6).Draw(t, "offk"))
	}
	sub := func(inner []*model.Value) *ref.E { return g.expr(inner, env, depth-1) }
	elems := func() []*model.Value {
		if c == nil {
			return nil
		}
		if c.K == model.Seq {
			return c.Elem
		}
		if c.K == model.Map {
			return c.Vals
		}
		return nil
	}
	switch k {
	case model.Map:
		switch rapid.IntRange(0, 13).Draw(t, "mp") {
		case 0, 1, 2, 3:
			ke := &ref.E{Op: "key", S: g.keyOf(c)}
			if rapid.IntRange(0, 4).Draw(t, "br") == 0 {
				ke.J = ip(1) // spell it .["k"]
			}
			return ke
		case 4:
			return &ref.E{Op: "splat"}
		case 5:
			return &ref.E{Op: "keys"}
		case 6:
			return &ref.E{Op: "length"}
		case 7:
			return &ref.E{Op: "has", S: g.keyOf(c)}
		case 8:
			return &ref.E{Op: "to_entries"}
		case 9:
			if depth > 0 {
				// keep with_entries bodies simple: they must yield key/value maps
				body := rapid.SampledFrom([]*ref.E{
					{Op: "self"},
					{Op: "select", A: []*ref.E{{Op: "bin", S: "!=", A: []*ref.E{{Op: "key", S: "key"}, litE(model.NewStr(g.keyOf(c)))}}}},
					{Op: "object", KS: []string{"key", "value"}, A: []*ref.E{{Op: "bin", S: "+", A: []*ref.E{{Op: "key", S: "key"}, litE(model.NewStr("_x"))}}, {Op: "key", S: "value"}}},
					{Op: "object", KS: []string{"key", "value"}, A: []*ref.E{{Op: "key", S: "key"}, {Op: "collect", A: []*ref.E{{Op: "key", S: "value"}}}}},
				}).Draw(t, "web")
				return &ref.E{Op: "with_entries", A: []*ref.E{body}}
			}
			return &ref.E{Op: "to_entries"}
		case 10:
			return &ref.E{Op: "rdesc"}
		case 11:
			return &ref.E{Op: "bin", S: "+", A: []*ref.E{{Op: "self"}, g.objectLit(ctx, env, depth-1)}}
		case 12:
			return &ref.E{Op: "contains", A: []*ref.E{g.containsArg(c)}}
		default:
			return &ref.E{Op: "select", A: []*ref.E{sub(ctx)}}
		}
	case model.Seq:
		n := 0
		if c != nil {
			n = len(c.Elem)
		}
		switch rapid.IntRange(0, 27).Draw(t, "sp") {
		case 0, 1, 2:
			return &ref.E{Op: "splat"}
		case 3, 4:
			return &ref.E{Op: "idx", I: ip(rapid.IntRange(-n-1, n+1).Draw(t, "ix"))}
		case 5, 6:
			nseq := 0
			if c != nil {
				for _, el := range c.Elem {
					if el.K == model.Seq {
						nseq++
					}
				}
			}
			if nseq >= 2 && nseq == n && rapid.Bool().Draw(t, "inner") {
				// slice every inner sequence: bounds must be worked out per node
				m := len(c.Elem[rapid.IntRange(0, n-1).Draw(t, "which")].Elem)
				in := &ref.E{Op: "slice"}
				if rapid.Bool().Draw(t, "openend") {
					in.I = ip(rapid.IntRange(0, m).Draw(t, "is1"))
				} else {
					in.J = ip(rapid.IntRange(-m, m).Draw(t, "is2"))
				}
				return &ref.E{Op: "pipe", A: []*ref.E{{Op: "splat"}, in}}
			}
			e := &ref.E{Op: "slice"}
			if rapid.IntRange(0, 3).Draw(t, "sf") > 0 {
				e.I = ip(rapid.IntRange(-n-2, n+2).Draw(t, "s1"))
			}
			if rapid.IntRange(0, 3).Draw(t, "st") > 0 || e.I == nil {
				e.J = ip(rapid.IntRange(-n-2, n+2).Draw(t, "s2"))
			}
			return e
		case 7:
			return &ref.E{Op: "length"}
		case 8:
			return &ref.E{Op: "keys"}
		case 9:
			return &ref.E{Op: "reverse"}
		case 10:
			return &ref.E{Op: "unique"}
		case 11:
			if rapid.Bool().Draw(t, "fd") {
				return &ref.E{Op: "flatten", I: ip(rapid.IntRange(0, 3).Draw(t, "fdn"))}
			}
			return &ref.E{Op: "flatten"}
		case 12:
			return &ref.E{Op: "any"}
		case 13:
			return &ref.E{Op: "all"}
		case 14, 15:
			if depth > 0 {
				return &ref.E{Op: "map", A: []*ref.E{sub(elems())}}
			}
			return &ref.E{Op: "splat"}
		case 16:
			if depth > 0 {
				cond := g.pred(elems(), env, depth-1)
				if rapid.IntRange(0, 2).Draw(t, "acsel") == 0 {
					// a condition that yields nothing for some elements (they contribute no verdict)
					cond = &ref.E{Op: "select", A: []*ref.E{cond}}
				}
				return &ref.E{Op: rapid.SampledFrom([]string{"any_c", "all_c"}).Draw(t, "ac"), A: []*ref.E{cond}}
			}
			return &ref.E{Op: "any"}
		case 17:
			if depth > 0 {
				var ke *ref.E
				if el := first(elems()); el != nil && el.K == model.Map {
					ke = &ref.E{Op: "key", S: g.keyOf(el)}
				} else {
					ke = &ref.E{Op: "self"}
				}
				return &ref.E{Op: "group_by", A: []*ref.E{ke}}
			}
			return &ref.E{Op: "reverse"}
		case 18:
			return &ref.E{Op: "join", S: rapid.SampledFrom([]string{",", "", "-", ", "}).Draw(t, "js")}
		case 19:
			return &ref.E{Op: "to_entries"}
		case 20:
			return &ref.E{Op: "has", I: ip(rapid.IntRange(0, n+1).Draw(t, "hi"))}
		case 21:
			return &ref.E{Op: "rdesc"}
		case 22:
			return &ref.E{Op: "contains", A: []*ref.E{g.containsArg(c)}}
		case 23:
			op := rapid.SampledFrom([]string{"+", "-"}).Draw(t, "sop")
			return &ref.E{Op: "bin", S: op, A: []*ref.E{{Op: "self"}, g.seqLit(c)}}
		case 24:
			return &ref.E{Op: "from_entries"}
		case 25:
			if depth > 0 {
				v := g.newVar()
				body := g.exprWith(ctx, env.With(v, first(elems())), depth-1, v)
				return &ref.E{Op: "as", S: v, A: []*ref.E{{Op: "splat"}, body}}
			}
			return &ref.E{Op: "splat"}
		case 26:
			if depth > 0 {
				return g.reduce(ctx, env, depth)
			}
			return &ref.E{Op: "length"}
		default:
			return &ref.E{Op: "select", A: []*ref.E{sub(ctx)}}
		}
	case model.Str:
		switch rapid.IntRange(0, 7).Draw(t, "stp") {
		case 0:
			return &ref.E{Op: "length"}
		case 1:
			return &ref.E{Op: "split", S: rapid.SampledFrom([]string{",", " ", "a", "o", "ab"}).Draw(t, "ss")}
		case 2:
			return &ref.E{Op: "bin", S: "+", A: []*ref.E{{Op: "self"}, litE(model.NewStr(rapid.SampledFrom([]string{"", "x", "_s", " "}).Draw(t, "sa")))}}
		case 3:
			return &ref.E{Op: "contains", A: []*ref.E{litE(model.NewStr(rapid.SampledFrom([]string{"a", "o", "foo", "bar", ""}).Draw(t, "cs")))}}
		case 4:
			return &ref.E{Op: "bin", S: rapid.SampledFrom([]string{"==", "!=", "<", "<=", ">", ">="}).Draw(t, "scmp"), A: []*ref.E{{Op: "self"}, litE(model.NewStr(rapid.SampledFrom([]string{"a", "b", "cat", "abc", "foo"}).Draw(t, "cmps")))}}
		case 5:
			return &ref.E{Op: "bin", S: "/", A: []*ref.E{{Op: "self"}, litE(model.NewStr(rapid.SampledFrom([]string{",", " ", "a"}).Draw(t, "ds")))}}
		case 6:
			return &ref.E{Op: "collect", A: []*ref.E{{Op: "self"}}}
		default:
			return g.pred(ctx, env, depth-1)
		}
	case model.Int, model.Float:
		switch rapid.IntRange(0, 7).Draw(t, "np") {
		case 0, 1, 2:
			op := rapid.SampledFrom([]string{"+", "-", "*", "/", "%"}).Draw(t, "aop")
			var rhs *ref.E
			if rapid.IntRange(0, 3).Draw(t, "multi") == 0 {
				rhs = &ref.E{Op: "union", A: []*ref.E{g.numLit(), g.numLit()}}
			} else {
				rhs = g.numLit()
			}
			if rapid.Bool().Draw(t, "swap") {
				return &ref.E{Op: "bin", S: op, A: []*ref.E{rhs, {Op: "self"}}}
			}
			return &ref.E{Op: "bin", S: op, A: []*ref.E{{Op: "self"}, rhs}}
		case 3, 4:
			lit := g.numLitFor(c)
			return &ref.E{Op: "bin", S: rapid.SampledFrom([]string{"==", "!=", "<", "<=", ">", ">="}).Draw(t, "ncmp"), A: []*ref.E{{Op: "self"}, lit}}
		case 5:
			return &ref.E{Op: "collect", A: []*ref.E{{Op: "union", A: []*ref.E{{Op: "self"}, g.numLit()}}}}
		case 6:
			return &ref.E{Op: "object", KS: []string{"n"}, A: []*ref.E{{Op: "self"}}}
		default:
			return &ref.E{Op: "bin", S: "//", A: []*ref.E{{Op: "self"}, g.scalarLit()}}
		}
	case model.Bool:
		switch rapid.IntRange(0, 4).Draw(t, "bp") {
		case 0:
			return &ref.E{Op: "not"}
		case 1:
			return &ref.E{Op: "bin", S: rapid.SampledFrom([]string{"and", "or"}).Draw(t, "bop"), A: []*ref.E{{Op: "self"}, g.boolish()}}
		case 2:
			return &ref.E{Op: "bin", S: "//", A: []*ref.E{{Op: "self"}, g.scalarLit()}}
		case 3:
			return &ref.E{Op: "bin", S: rapid.SampledFrom([]string{"==", "!="}).Draw(t, "beq"), A: []*ref.E{{Op: "self"}, litE(model.NewBool(rapid.Bool().Draw(t, "bl")))}}
		default:
			return &ref.E{Op: "collect", A: []*ref.E{{Op: "self"}}}
		}
	default: // null / empty context
		switch rapid.IntRange(0, 6).Draw(t, "nlp") {
		case 0:
			return &ref.E{Op: "bin", S: "//", A: []*ref.E{{Op: "self"}, g.scalarLit()}}
		case 1:
			return &ref.E{Op: "length"}
		case 2:
			return &ref.E{Op: "bin", S: "+", A: []*ref.E{{Op: "self"}, g.scalarLit()}}
		case 3:
			return &ref.E{Op: "bin", S: rapid.SampledFrom([]string{"==", "!="}).Draw(t, "neq"), A: []*ref.E{{Op: "self"}, litE(model.NewNull())}}
		case 4:
			return &ref.E{Op: "key", S: g.keyOf(nil)}
		case 5:
			return &ref.E{Op: "not"}
		default:
			return g.scalarLit()
		}
	}
}

func (g *exprGen) newVar() string {
	v := rapid.SampledFrom([]string{"x", "y", "z"}).Draw(g.t, "vn")
	return v
}

// numLitFor: integers beyond 2^53 are compared with their neighbours (a comparison through float64 cannot tell them apart).
func (g *exprGen) numLitFor(c *model.Value) *ref.E {
	if c != nil && c.K == model.Int && c.I.IsInt64() && (c.I.Int64() > 1<<52 || c.I.Int64() < -(1<<52)) && c.I.Int64() < 1<<62 && rapid.IntRange(0, 3).Draw(g.t, "near") != 0 {
		return litE(model.NewInt(c.I.Int64() + int64(rapid.SampledFrom([]int{-1, 1}).Draw(g.t, "delta"))))
	}
	return g.numLit()
}

func (g *exprGen) numLit() *ref.E {
	t := g.t
	if rapid.IntRange(0, 4).Draw(t, "nf") == 0 {
		return litE(model.NewFloat(rapid.SampledFrom([]float64{0.5, 1.5, -2.5, 2.25, 4.0}).Draw(t, "nfv")))
	}
	return litE(model.NewInt(int64(rapid.SampledFrom([]int{0, 1, 2, 3, 4, 5, 7, -1, -2, -3, 10, 100}).Draw(t, "niv"))))
}

func (g *exprGen) boolish() *ref.E {
	t := g.t
	switch rapid.IntRange(0, 4).Draw(t, "bk") {
	case 0:
		return litE(model.NewBool(true))
	case 1:
		return litE(model.NewBool(false))
	case 2:
		return litE(model.NewNull())
	case 3:
		return litE(model.NewInt(0))
	default:
		return litE(model.NewStr("a"))
	}
}

func (g *exprGen) seqLit(c *model.Value) *ref.E {
	t := g.t
	s := model.NewSeq()
	n := rapid.IntRange(0, 3).Draw(t, "sln")
	for i := 0; i < n; i++ {
		if c != nil && c.K == model.Seq && len(c.Elem) > 0 && rapid.Bool().Draw(t, "fromdoc") {
			el := rapid.SampledFrom(c.Elem).Draw(t, "sle")
			if el.IsScalar() {
				s.Elem = append(s.Elem, el.Copy())
				continue
			}
		}
		s.Elem = append(s.Elem, model.NewInt(int64(rapid.IntRange(-3, 9).Draw(t, "sli"))))
	}
	if len(s.Elem) == 0 {
		return &ref.E{Op: "collect"}
	}
	// a non-empty array literal is spelled [a, b, c]
	var u *ref.E
	for i, el := range s.Elem {
		le := litE(el)
		if i == 0 {
			u = le
		} else {
			u = &ref.E{Op: "union", A: []*ref.E{u, le}}
		}
	}
	return &ref.E{Op: "collect", A: []*ref.E{u}}
}

func (g *exprGen) containsArg(c *model.Value) *ref.E {
	t := g.t
	if c == nil {
		return litE(model.NewStr("a"))
	}
	switch c.K {
	case model.Seq:
		return g.seqLit(c)
	case model.Map:
		e := &ref.E{Op: "object"}
		for i, k := range c.Keys {
			if c.Vals[i].IsScalar() && rapid.Bool().Draw(t, "ck") {
				e.KS = append(e.KS, k)
				e.A = append(e.A, litE(c.Vals[i]))
			}
		}
		if len(e.KS) == 0 {
			e.KS = []string{"zz"}
			e.A = []*ref.E{litE(model.NewInt(1))}
		}
		return e
	}
	return litE(model.NewStr("a"))
}

func (g *exprGen) objectLit(ctx []*model.Value, env ref.Env, depth int) *ref.E {
	t := g.t
	e := &ref.E{Op: "object"}
	n := rapid.IntRange(1, 3).Draw(t, "on")
	multiUsed := false
	for i := 0; i < n; i++ {
		k := rapid.SampledFrom([]string{"a", "b", "c", "p", "q"}).Draw(t, "ok")
		dup := false
		for _, kk := range e.KS {
			if kk == k {
				dup = true
			}
		}
		if dup {
			continue
		}
		var v *ref.E
		if depth > 0 && rapid.Bool().Draw(t, "ov") {
			v = g.expr(ctx, env, depth-1)
			if r := g.evalOr(v, ctx[:minInt(1, len(ctx))], env); len(r) != 1 {
				if multiUsed || len(r) == 0 {
					v = g.scalarLit()
				} else {
					multiUsed = true
				}
			}
		} else {
			v = g.scalarLit()
		}
		e.KS = append(e.KS, k)
		e.A = append(e.A, v)
	}
	return e
}

func minInt(a, b int) int {
	if a < b {
		return a
	}
	return b
}

// pred generates a boolean-ish expression over ctx.
func (g *exprGen) pred(ctx []*model.Value, env ref.Env, depth int) *ref.E {
	t := g.t
	c := first(ctx)
	var lhs *ref.E = &ref.E{Op: "self"}
	var target *model.Value = c
	if c != nil && c.K == model.Map && len(c.Keys) > 0 {
		k := g.keyOf(c)
		lhs = &ref.E{Op: "key", S: k}
		target, _ = c.Get(k)
	}
	mk := func(op string, r *ref.E) *ref.E { return &ref.E{Op: "bin", S: op, A: []*ref.E{lhs, r}} }
	var p *ref.E
	switch {
	case target != nil && target.IsNumber():
		p = mk(rapid.SampledFrom([]string{"==", "!=", "<", "<=", ">", ">="}).Draw(t, "pn"), g.numLitFor(target))
	case target != nil && target.K == model.Str:
		p = mk(rapid.SampledFrom([]string{"==", "!=", "<", ">="}).Draw(t, "ps"), litE(model.NewStr(rapid.SampledFrom([]string{"a", "b", "cat", "abc", "foo", target.S}).Draw(t, "psv"))))
	case target != nil && target.K == model.Null:
		p = mk(rapid.SampledFrom([]string{"==", "!="}).Draw(t, "pnl"), litE(model.NewNull()))
	default:
		switch rapid.IntRange(0, 3).Draw(t, "pd") {
		case 0:
			p = &ref.E{Op: "bin", S: ">", A: []*ref.E{{Op: "pipe", A: []*ref.E{lhs, {Op: "length"}}}, litE(model.NewInt(int64(rapid.IntRange(0, 3).Draw(t, "pl"))))}}
		case 1:
			p = lhs
		case 2:
			p = mk("==", litE(model.NewNull()))
		default:
			p = &ref.E{Op: "pipe", A: []*ref.E{lhs, {Op: "not"}}}
		}
	}
	if depth > 0 && rapid.IntRange(0, 3).Draw(t, "pc") == 0 {
		q := g.pred(ctx, env, depth-1)
		return &ref.E{Op: "bin", S: rapid.SampledFrom([]string{"and", "or"}).Draw(t, "pbo"), A: []*ref.E{p, q}}
	}
	if rapid.IntRange(0, 7).Draw(t, "pnot") == 0 {
		return &ref.E{Op: "pipe", A: []*ref.E{p, {Op: "not"}}}
	}
	return p
}

func (g *exprGen) reduce(ctx []*model.Value, env ref.Env, depth int) *ref.E {
	t := g.t
	v := g.newVar()
	c := first(ctx)
	var init, block *ref.E
	allNum := c != nil && c.K == model.Seq && len(c.Elem) > 0
	if allNum {
		for _, el := range c.Elem {
			if el.K != model.Int {
				allNum = false
			}
		}
	}
	switch {
	case allNum && rapid.Bool().Draw(t, "rk"):
		init = litE(model.NewInt(int64(rapid.IntRange(0, 2).Draw(t, "ri"))))
		block = &ref.E{Op: "bin", S: rapid.SampledFrom([]string{"+", "-"}).Draw(t, "rop"), A: []*ref.E{{Op: "self"}, {Op: "var", S: v}}}
	case rapid.Bool().Draw(t, "rk2"):
		init = &ref.E{Op: "collect"}
		if rapid.Bool().Draw(t, "rorder") {
			block = &ref.E{Op: "bin", S: "+", A: []*ref.E{{Op: "collect", A: []*ref.E{{Op: "var", S: v}}}, {Op: "self"}}}
		} else {
			block = &ref.E{Op: "bin", S: "+", A: []*ref.E{{Op: "self"}, {Op: "collect", A: []*ref.E{{Op: "var", S: v}}}}}
		}
	default:
		init = litE(model.NewInt(0))
		block = &ref.E{Op: "bin", S: "+", A: []*ref.E{{Op: "self"}, litE(model.NewInt(1))}}
	}
	return &ref.E{Op: "reduce", S: v, A: []*ref.E{{Op: "splat"}, init, block}}
}

// exprWith generates a body that uses variable v at least sometimes.
func (g *exprGen) exprWith(ctx []*model.Value, env ref.Env, depth int, v string) *ref.E {
	t := g.t
	val := env[v]
	use := &ref.E{Op: "var", S: v}
	switch rapid.IntRange(0, 4).Draw(t, "vw") {
	case 0:
		return use
	case 1:
		return &ref.E{Op: "collect", A: []*ref.E{{Op: "union", A: []*ref.E{use, g.expr(ctx, env, depth-1)}}}}
	case 2:
		if val != nil && val.IsNumber() {
			return &ref.E{Op: "bin", S: rapid.SampledFrom([]string{"+", "*", "-"}).Draw(t, "vop"), A: []*ref.E{use, g.numLit()}}
		}
		return &ref.E{Op: "object", KS: []string{"v", "n"}, A: []*ref.E{use, {Op: "length"}}}
	case 3:
		if val != nil {
			inner := g.expr([]*model.Value{val}, env, depth-1)
			return &ref.E{Op: "pipe", A: []*ref.E{use, inner}}
		}
		return use
	default:
		return &ref.E{Op: "object", KS: []string{"v"}, A: []*ref.E{use}}
	}
}

// expr generates a pipeline of steps.
func (g *exprGen) expr(ctx []*model.Value, env ref.Env, depth int) *ref.E {
	t := g.t
	if depth < 0 {
		depth = 0
	}
	n := rapid.IntRange(1, 3).Draw(t, "steps")
	var e *ref.E
	cur := ctx
	for i := 0; i < n; i++ {
		var s *ref.E
		switch rapid.IntRange(0, 11).Draw(t, "shape") {
		case 0:
			if depth > 0 {
				s = &ref.E{Op: "union", A: []*ref.E{g.step(cur, env, depth-1), g.step(cur, env, depth-1)}}
			}
		case 1:
			if depth > 0 {
				s = &ref.E{Op: "collect", A: []*ref.E{g.expr(cur[:minInt(1, len(cur))], env, depth-1)}}
			}
		case 2:
			if depth > 0 {
				// binary operator whose operands are both sub-pipelines (multi-result streams)
				one := cur[:minInt(1, len(cur))]
				l := g.expr(one, env, depth-1)
				r := g.expr(one, env, depth-1)
				lk, rk := kindOf(g.evalOr(l, one, env)), kindOf(g.evalOr(r, one, env))
				ops := []string{"//", "and", "or", "==", "!="}
				switch {
				case (lk == model.Int || lk == model.Float) && (rk == model.Int || rk == model.Float):
					ops = []string{"+", "-", "*", "/", "%", "<", "<=", ">", ">=", "==", "!=", "+", "-", "*"}
				case lk == model.Str && rk == model.Str:
					ops = []string{"+", "<", ">=", "==", "!=", "/", "//"}
				case lk == model.Seq && rk == model.Seq:
					ops = []string{"+", "-", "+", "//"}
				case lk == model.Seq:
					ops = []string{"+", "//", "and"}
				case lk == model.Map && rk == model.Map:
					ops = []string{"+", "//", "or"}
				case lk == model.Null:
					ops = []string{"+", "//", "==", "!=", "or"}
				}
				if rapid.IntRange(0, 9).Draw(t, "anyop") == 0 {
					ops = []string{"+", "-", "*", "==", "!=", "<", ">", "//", "and", "or", "/", "%", "<=", ">="}
				}
				s = &ref.E{Op: "bin", S: rapid.SampledFrom(ops).Draw(t, "xop"), A: []*ref.E{l, r}}
			}
		case 3:
			if len(g.vars) > 0 {
				s = &ref.E{Op: "var", S: rapid.SampledFrom(g.vars).Draw(t, "uv")}
			}
		case 4:
			if depth > 0 {
				// binding: names come from a tiny pool so that nested scopes re-bind them
				v := rapid.SampledFrom([]string{"x", "y"}).Draw(t, "bv")
				one := cur[:minInt(1, len(cur))]
				bind := g.step(one, env, depth-1)
				vals := g.evalOr(bind, one, env)
				if len(vals) >= 1 {
					saved := g.vars
					g.vars = append(append([]string{}, g.vars...), v)
					body := g.expr(one, env.With(v, vals[0]), depth-1)
					if rapid.Bool().Draw(t, "usev") {
						body = &ref.E{Op: "collect", A: []*ref.E{{Op: "union", A: []*ref.E{body, {Op: "var", S: v}}}}}
					}
					g.vars = saved
					s = &ref.E{Op: "as", S: v, A: []*ref.E{bind, body}}
					if len(g.vars) > 0 && rapid.Bool().Draw(t, "after") {
						// read an outer variable after the inner scope has closed
						s = &ref.E{Op: "collect", A: []*ref.E{{Op: "union", A: []*ref.E{s, {Op: "var", S: rapid.SampledFrom(g.vars).Draw(t, "ov")}}}}}
					}
				}
			}
		}
		if s == nil {
			s = g.step(cur, env, depth)
		}
		if e == nil {
			e = s
		} else {
			e = &ref.E{Op: "pipe", A: []*ref.E{e, s}}
		}
		cur = g.evalOr(s, cur, env)
	}
	return e
}

// CoreExpr generates a core-fragment expression fitted to doc.
func CoreExpr(t *rapid.T, doc *model.Value, depth int) *ref.E {
	g := &exprGen{t: t}
	e := g.expr([]*model.Value{doc}, ref.Env{}, depth)
	// half of the path-like pipes are written as postfix chains (.a[0], .a["k"], .a[], .a[1:3])
	ref.MarkPostfix(e, func() bool { return rapid.Bool().Draw(t, "postfix") })
	ref.MarkHex(e, func() bool { return rapid.IntRange(0, 2).Draw(t, "hex") == 0 })
	return e
}
