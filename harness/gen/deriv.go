package gen

import (
	"strings"

	"pgregory.net/rapid"
	"verif/model"
	"verif/ref"
)

// Shared by C03 / C16 / C07: paths to containers, predicates fitted to a sample
// node, and container-producing derivations.

func Lit(v *model.Value) *ref.E { return &ref.E{Op: "lit", Lit: v.JSON()} }

func Pipe(a, b *ref.E) *ref.E {
	if a == nil || a.Op == "self" {
		return b
	}
	if b == nil || b.Op == "self" {
		return a
	}
	return &ref.E{Op: "pipe", A: []*ref.E{a, b}}
}

func ContainerPaths(root *model.Value) (paths []*ref.E, nodes []*model.Value) {
	var walk func(v *model.Value, p *ref.E)
	walk = func(v *model.Value, p *ref.E) {
		if v.K == model.Seq || v.K == model.Map {
			paths = append(paths, p)
			nodes = append(nodes, v)
		}
		switch v.K {
		case model.Seq:
			for i, e := range v.Elem {
				walk(e, Pipe(p, &ref.E{Op: "idx", I: ip(i)}))
			}
		case model.Map:
			for i, e := range v.Vals {
				if strings.ContainsAny(v.Keys[i], "*?") {
					continue
				}
				walk(e, Pipe(p, &ref.E{Op: "key", S: v.Keys[i], J: ip(1)}))
			}
		}
	}
	walk(root, &ref.E{Op: "self"})
	return
}

func SafeStr(s string) bool {
	for _, r := range s {
		if r < 0x20 || r == '"' || r == '\\' || r == 0x7f || r == '*' || r == '?' {
			return false
		}
	}
	return true
}

func Pred(t *rapid.T, sample *model.Value) *ref.E {
	self := &ref.E{Op: "self"}
	lhs := self
	target := sample
	if sample != nil && sample.K == model.Map && len(sample.Keys) > 0 {
		k := rapid.SampledFrom(sample.Keys).Draw(t, "pk")
		if SafeStr(k) {
			lhs = &ref.E{Op: "key", S: k, J: ip(1)}
			target, _ = sample.Get(k)
		}
	}
	bin := func(op string, r *ref.E) *ref.E { return &ref.E{Op: "bin", S: op, A: []*ref.E{lhs, r}} }
	switch {
	case target != nil && target.K == model.Int:
		return bin(rapid.SampledFrom([]string{"==", "!=", "<", ">", "<=", ">="}).Draw(t, "pop"), Lit(target))
	case target != nil && target.K == model.Str && SafeStr(target.S):
		return bin(rapid.SampledFrom([]string{"==", "!="}).Draw(t, "pop"), Lit(target))
	case target != nil && target.K == model.Null:
		return bin("==", Lit(model.NewNull()))
	}
	return &ref.E{Op: "bin", S: ">", A: []*ref.E{Pipe(lhs, &ref.E{Op: "length"}), Lit(model.NewInt(int64(rapid.IntRange(0, 2).Draw(t, "pl"))))}}
}

func Derivation(t *rapid.T, c *model.Value, labels *[]string) *ref.E {
	if c.K != model.Seq {
		if c.K == model.Map && len(c.Keys) > 0 && rapid.IntRange(0, 2).Draw(t, "mapc") == 0 {
			// collect values of a map into a sequence
			*labels = append(*labels, "f:collect_map_values")
			k := rapid.SampledFrom(c.Keys).Draw(t, "mck")
			if SafeStr(k) && rapid.Bool().Draw(t, "onekey") {
				return &ref.E{Op: "collect", A: []*ref.E{{Op: "key", S: k, J: ip(1)}}}
			}
			return &ref.E{Op: "collect", A: []*ref.E{{Op: "splat"}}}
		}
		if c.K == model.Map && len(c.Keys) > 0 && rapid.IntRange(0, 3).Draw(t, "mapshared") == 0 {
			// a sum of two maps that share a key: the entry of the result comes from the right operand
			if k := rapid.SampledFrom(c.Keys).Draw(t, "msk"); SafeStr(k) {
				*labels = append(*labels, "f:map_plus_shared_key")
				obj := &ref.E{Op: "object", KS: []string{k, "zz"}, A: []*ref.E{Lit(model.NewInt(7)), Lit(model.NewInt(8))}}
				if rapid.Bool().Draw(t, "msfront") {
					return &ref.E{Op: "bin", S: "+", A: []*ref.E{obj, {Op: "self"}}}
				}
				return &ref.E{Op: "bin", S: "+", A: []*ref.E{{Op: "self"}, obj}}
			}
		}
		if rapid.IntRange(0, 3).Draw(t, "mapd") == 0 {
			*labels = append(*labels, "f:map_plus")
			return &ref.E{Op: "bin", S: "+", A: []*ref.E{{Op: "self"}, {Op: "object", KS: []string{"zz"}, A: []*ref.E{Lit(model.NewInt(7))}}}}
		}
		*labels = append(*labels, "f:identity")
		return &ref.E{Op: "self"}
	}
	n := len(c.Elem)
	one := func() *ref.E {
		switch rapid.IntRange(0, 11).Draw(t, "dk") {
		case 0:
			*labels = append(*labels, "f:identity")
			return &ref.E{Op: "self"}
		case 1:
			*labels = append(*labels, "f:sort")
			return &ref.E{Op: "sort"}
		case 2:
			*labels = append(*labels, "f:reverse")
			return &ref.E{Op: "reverse"}
		case 3:
			*labels = append(*labels, "f:slice")
			e := &ref.E{Op: "slice"}
			if rapid.Bool().Draw(t, "sopen") {
				e.I = ip(rapid.IntRange(0, n).Draw(t, "s1"))
			} else {
				e.I = ip(rapid.IntRange(0, n).Draw(t, "s1"))
				e.J = ip(rapid.IntRange(-n, n).Draw(t, "s2"))
			}
			return e
		case 4:
			*labels = append(*labels, "f:map")
			return &ref.E{Op: "map", A: []*ref.E{{Op: "self"}}}
		case 5:
			*labels = append(*labels, "f:filter")
			var s *model.Value
			if n > 0 {
				s = c.Elem[rapid.IntRange(0, n-1).Draw(t, "fs")]
			}
			return &ref.E{Op: "filter", A: []*ref.E{Pred(t, s)}}
		case 6:
			*labels = append(*labels, "f:plus")
			extra := &ref.E{Op: "collect", A: []*ref.E{{Op: "union", A: []*ref.E{Lit(model.NewInt(901)), Lit(model.NewInt(902))}}}}
			if rapid.Bool().Draw(t, "pfront") {
				return &ref.E{Op: "bin", S: "+", A: []*ref.E{extra, {Op: "self"}}}
			}
			return &ref.E{Op: "bin", S: "+", A: []*ref.E{{Op: "self"}, extra}}
		case 7:
			*labels = append(*labels, "f:collect_select")
			var s *model.Value
			if n > 0 {
				s = c.Elem[rapid.IntRange(0, n-1).Draw(t, "fs")]
			}
			return &ref.E{Op: "collect", A: []*ref.E{Pipe(&ref.E{Op: "splat"}, &ref.E{Op: "select", A: []*ref.E{Pred(t, s)}})}}
		case 8:
			*labels = append(*labels, "f:unique")
			return &ref.E{Op: "unique"}
		case 9:
			*labels = append(*labels, "f:flatten")
			return &ref.E{Op: "flatten", I: ip(1)}
		case 10:
			*labels = append(*labels, "f:sort_by")
			if n > 0 && c.Elem[0].K == model.Map && len(c.Elem[0].Keys) > 0 && SafeStr(c.Elem[0].Keys[0]) {
				return &ref.E{Op: "sort_by", A: []*ref.E{{Op: "key", S: c.Elem[0].Keys[0], J: ip(1)}}}
			}
			return &ref.E{Op: "sort_by", A: []*ref.E{{Op: "self"}}}
		default:
			*labels = append(*labels, "f:minus")
			return &ref.E{Op: "bin", S: "-", A: []*ref.E{{Op: "self"}, {Op: "collect", A: []*ref.E{Lit(model.NewInt(424242))}}}}
		}
	}
	f := one()
	if rapid.IntRange(0, 3).Draw(t, "two") == 0 {
		f = Pipe(f, one())
		*labels = append(*labels, "f:composed")
	}
	return f
}
