package gen

import (
	"fmt"

	"pgregory.net/rapid"
)

// MergeDoc builds one document in "merge mode": a root map whose first entries
// are anchored nodes (scalars, sequences, maps - maps may themselves merge
// earlier bases), followed by maps that pull them in with `<<: *a` or
// `<<: [*a, *b]`, with keys that overlap between the merge sources and with
// explicit keys placed before and after the `<<` entry, plus aliases in value
// positions.
func MergeDoc(t *rapid.T) *YDoc {
	root := &YN{K: YMap}
	var bases []*YN // anchored maps
	var anyAnch []*YN
	n := 0
	anchor := func(x *YN) *YN {
		n++
		x.Anchor = fmt.Sprintf("a%d", n)
		anyAnch = append(anyAnch, x)
		return x
	}
	sc := func(label string) *YN {
		switch rapid.IntRange(0, 3).Draw(t, label) {
		case 0:
			return &YN{K: YScalar, T: "int", S: fmt.Sprint(rapid.IntRange(0, 99).Draw(t, label+"i"))}
		case 1:
			// (now and then a value that reads like one of the keys)
			return &YN{K: YScalar, T: "str", S: rapid.SampledFrom([]string{"x", "w", "zed", "v w", "a", "b", "c", "d"}).Draw(t, label+"s")}
		case 2:
			return &YN{K: YScalar, T: "bool", S: rapid.SampledFrom([]string{"true", "false"}).Draw(t, label+"b")}
		default:
			return &YN{K: YScalar, T: "null", S: "null"}
		}
	}
	alias := func(tg *YN) *YN { return &YN{K: YAlias, Target: tg, TName: tg.Anchor} }
	keyPool := []string{"a", "b", "c", "d"}
	mkMap := func(label string, allowMerge bool) *YN {
		m := &YN{K: YMap, Flow: rapid.IntRange(0, 3).Draw(t, label+"flow") == 0}
		ks := rapid.Permutation(keyPool).Draw(t, label+"perm")
		nk := rapid.IntRange(0, 3).Draw(t, label+"nk")
		mergeAt := -1
		if allowMerge && len(bases) > 0 && rapid.IntRange(0, 3).Draw(t, label+"merge") > 0 {
			mergeAt = rapid.IntRange(0, nk).Draw(t, label+"mpos") // before, between or after the explicit keys
		}
		add := func(i int) {
			k := &YN{K: YScalar, T: "str", S: ks[i]}
			var v *YN
			switch rapid.IntRange(0, 5).Draw(t, label+"vk") {
			case 0:
				if len(anyAnch) > 0 {
					v = alias(rapid.SampledFrom(anyAnch).Draw(t, label+"al"))
					break
				}
				v = sc(label + "v")
			case 1:
				v = &YN{K: YSeq, Flow: true, Elem: []*YN{sc(label + "e1"), sc(label + "e2")}}
			case 2:
				v = &YN{K: YMap, Flow: true, Keys: []*YN{{K: YScalar, T: "str", S: "nn"}}, Vals: []*YN{sc(label + "nv")}}
			default:
				v = sc(label + "v")
			}
			m.Keys = append(m.Keys, k)
			m.Vals = append(m.Vals, v)
		}
		addMerge := func() {
			k := &YN{K: YScalar, T: "str", S: "<<", Merge: true}
			var v *YN
			if len(bases) >= 2 && rapid.Bool().Draw(t, label+"mlist") {
				picks := rapid.SliceOfNDistinct(rapid.IntRange(0, len(bases)-1), 2, minI(3, len(bases)), func(i int) int { return i }).Draw(t, label+"mp")
				v = &YN{K: YSeq, Flow: true}
				for _, p := range picks {
					v.Elem = append(v.Elem, alias(bases[p]))
				}
			} else {
				v = alias(rapid.SampledFrom(bases).Draw(t, label+"mb"))
			}
			m.Keys = append(m.Keys, k)
			m.Vals = append(m.Vals, v)
		}
		for i := 0; i < nk; i++ {
			if i == mergeAt {
				addMerge()
			}
			add(i)
		}
		if mergeAt == nk {
			addMerge()
		}
		return m
	}
	// anchored things
	nb := rapid.IntRange(1, 4).Draw(t, "nbases")
	for i := 0; i < nb; i++ {
		var v *YN
		switch rapid.IntRange(0, 5).Draw(t, "bk") {
		case 0:
			v = anchor(sc("bs"))
		case 1:
			v = anchor(&YN{K: YSeq, Flow: rapid.Bool().Draw(t, "bsf"), Elem: []*YN{sc("be1"), sc("be2")}})
		default:
			v = mkMap(fmt.Sprintf("base%d", i), true)
			if v.Len() == 0 {
				v.Flow = true
			}
			anchor(v)
			bases = append(bases, v)
		}
		root.Keys = append(root.Keys, &YN{K: YScalar, T: "str", S: fmt.Sprintf("base%d", i)})
		root.Vals = append(root.Vals, v)
	}
	// users
	nu := rapid.IntRange(1, 4).Draw(t, "nusers")
	for i := 0; i < nu; i++ {
		var v *YN
		switch rapid.IntRange(0, 5).Draw(t, "uk") {
		case 0:
			v = alias(rapid.SampledFrom(anyAnch).Draw(t, "ual"))
		case 1:
			v = &YN{K: YSeq}
			for j := rapid.IntRange(1, 3).Draw(t, "usn"); j > 0; j-- {
				if rapid.Bool().Draw(t, "usa") {
					v.Elem = append(v.Elem, alias(rapid.SampledFrom(anyAnch).Draw(t, "usal")))
				} else {
					v.Elem = append(v.Elem, mkMap(fmt.Sprintf("u%ds%d", i, j), true))
				}
			}
		default:
			v = mkMap(fmt.Sprintf("user%d", i), true)
			if v.Len() == 0 {
				v.Flow = true
			}
		}
		root.Keys = append(root.Keys, &YN{K: YScalar, T: "str", S: fmt.Sprintf("m%d", i)})
		root.Vals = append(root.Vals, v)
	}
	// an anchor name may be defined again: an alias means the latest definition before it. Give a base the name of
	// the base before it (when it does not point at that one itself) and let every later alias of the old name
	// mean the new node - which is what the text now says.
	if len(bases) >= 2 && rapid.IntRange(0, 3).Draw(t, "reuse") == 0 {
		j := rapid.IntRange(1, len(bases)-1).Draw(t, "reusej")
		prev, cur := bases[j-1], bases[j]
		refers := false
		cur.Walk(func(x *YN) {
			if x.K == YAlias && x.Target == prev {
				refers = true
			}
		})
		if !refers {
			old := cur.Anchor
			cur.Anchor = prev.Anchor
			after := false
			for i := range root.Vals {
				top := root.Vals[i]
				if top == cur {
					after = true
					continue
				}
				top.Walk(func(x *YN) {
					if x.K != YAlias {
						return
					}
					if x.Target == cur {
						x.TName = cur.Anchor
					}
					if after && x.Target == prev {
						x.Target, x.TName = cur, cur.Anchor
					}
				})
				if top.K == YAlias {
					if top.Target == cur {
						top.TName = cur.Anchor
					}
					if after && top.Target == prev {
						top.Target, top.TName = cur, cur.Anchor
					}
				}
			}
			_ = old
		}
	}
	// an anchor name defined again inside the node that carries it: `nest: &n {in: &n 1, o: 2}` - an alias after it
	// means the inner node (the latest definition before the alias), also when the outer node is a sequence
	if rapid.IntRange(0, 3).Draw(t, "nestreuse") == 0 {
		n++
		name := fmt.Sprintf("a%d", n)
		inner := sc("nin")
		inner.Anchor = name
		var outer *YN
		if rapid.Bool().Draw(t, "nestseq") {
			outer = &YN{K: YSeq, Flow: rapid.Bool().Draw(t, "nestflow"), Elem: []*YN{sc("ne0"), inner, sc("ne2")}}
		} else {
			outer = &YN{K: YMap, Flow: rapid.Bool().Draw(t, "nestflow"),
				Keys: []*YN{{K: YScalar, T: "str", S: "in"}, {K: YScalar, T: "str", S: "o"}}, Vals: []*YN{inner, sc("no")}}
		}
		outer.Anchor = name
		root.Keys = append(root.Keys, &YN{K: YScalar, T: "str", S: "nest"}, &YN{K: YScalar, T: "str", S: "nestref"})
		root.Vals = append(root.Vals, outer, &YN{K: YAlias, Target: inner, TName: name})
	}
	return &YDoc{Root: root}
}

func minI(a, b int) int {
	if a < b {
		return a
	}
	return b
}
