// Package gen holds the rapid generators shared by the property packages.
package gen

import (
	"fmt"
	"regexp"
	"strconv"
	"strings"

	"pgregory.net/rapid"
)

// ---------------------------------------------------------------------------
// Full-vocabulary expression generator (C11, C08 vocabulary, C18 pool).
// It is string based and only loosely typed: the point is to reach every
// lexer rule and every handler with plausible and implausible operands.

var Nullary = []string{
	"length", "line", "column", "to_number", "tonumber", "flatten", "flatten(0)", "flatten(1)", "flatten(2)", "flatten(99999)",
	"now", "to_unix", "from_unix", "shuffle", "sort_keys(.)", "sort_keys(..)", "array_to_map", "to_yaml", "to_yaml(0)", "to_yaml(3)", "to_json", "to_json(0)", "to_json(4)", "@json",
	"to_xml", "to_xml(1)", "@xml", "to_props", "@props", "to_csv", "@csv", "to_tsv", "@tsv", "@base64", "@base64d", "@uri", "@urid", "@sh", "@yaml",
	"from_yaml", "from_json", "@yamld", "@jsond", "from_props", "from_xml", "from_csv", "from_tsv", "@propsd", "@xmld", "@csvd", "@tsvd",
	"split_doc", "unique", "explode(.)", "not", "sort", "reverse", "any", "all", "parent", "parent(0)", "parent(1)", "parent(2)", "parent(7)", "keys", "key", "is_key",
	"filename", "file_index", "fi", "path", "to_entries", "from_entries", "style", "tag", "type", "kind", "anchor", "alias",
	"line_comment", "head_comment", "foot_comment", "document_index", "di", "upcase", "downcase", "ascii_downcase", "trim", "to_string", "tostring",
	"(min)", "(max)", "pivot", "envsubst", "collect", "..", "...", ".", ".[]", "first", "error",
}

var Unary = []string{
	"select", "map", "map_values", "filter", "pick", "omit", "has", "unique_by", "group_by", "sort_by", "any_c", "all_c", "contains", "split", "join",
	"test", "match", "capture", "with_entries", "del", "delpaths", "eval", "tz", "format_datetime", "sort_keys", "explode", "error", "to_entries|map", "collect",
	"load_str", "load", "load_xml", "load_props", "load_base64", "from_unix|tz",
}

var Binary2 = []string{"sub", "with", "setpath", "with_dtf"}

var BinOps = []string{"|", ",", "+", "-", "*", "/", "%", "//", "==", "!=", "<", "<=", ">", ">=", "and", "or", "=", "|=", "+=", "-=", "*=", "*+", "*d", "*?", "*n", "*c", "*+?", "*dn", "*=+", ":", "=c", "|=c"}

var Keys = []string{"a", "b", "c", "d", "e", "aa", "ab", "k", "x", "name", "id", "<<", "a*", "?", "0", "1", "-1", "+@id", "+content"}

var Strs = []string{"", "a", "b", "cat", "a*", "*", "?", "a b", "1", "true", "null", "~", "0x1F", "1e3", "<<", "[", "]]", "a,b", "a=b", "x: y", "{\"a\":1}", "<a>1</a>", "</a>", "a\nb", "é", "😀", "\\d+", "(?P<n>a)", "(", "[a-", "2006-01-02", "2021-05-01T01:02:03Z", "Mon, 02 Jan 2006", "Australia/Sydney", "YQ==", "%zz", "a%20b", "$HOME", "${X}", "%", "\\", "'", "\"", "!!map", "!!seq", "!!str", "!!int", "!!null", "!custom", ".a", "eval(.a)", "eval(.)", ".[] | eval(.)"}

func quote(s string) string {
	var b strings.Builder
	b.WriteByte('"')
	for _, r := range s {
		switch r {
		case '"':
			b.WriteString(`\"`)
		case '\\':
			b.WriteString(`\\`)
		case '\n':
			b.WriteString(`\n`)
		case '\t':
			b.WriteString(`\t`)
		default:
			b.WriteRune(r)
		}
	}
	b.WriteByte('"')
	return b.String()
}

// Quote renders a yq double-quoted string literal.
func Quote(s string) string { return quote(s) }

var nums = []string{"0", "1", "2", "3", "-1", "-2", "-5", "7", "10", "255", "1000", "-1000", "4096", "65536", "2147483648", "9223372036854775807", "-9223372036854775808", "9223372036854775808", "18446744073709551616",
	"0.5", "1.5", "-0.0", "1e3", "1e400", "0x1F", "0x7fffffffffffffff", "0xFFFFFFFFFFFFFFFFFF", "3.0", "2.5e-3"}

func lit(t *rapid.T) string {
	switch rapid.IntRange(0, 9).Draw(t, "litk") {
	case 0, 1, 2:
		return rapid.SampledFrom(nums).Draw(t, "num")
	case 3, 4, 5:
		return quote(rapid.SampledFrom(Strs).Draw(t, "str"))
	case 6:
		return rapid.SampledFrom([]string{"true", "false", "null", "~", "True", "NULL"}).Draw(t, "kw")
	case 7:
		return rapid.SampledFrom([]string{"[]", "[]", dataLit(t)}).Draw(t, "l7")
	case 8:
		return rapid.SampledFrom([]string{"{}", "{}", dataLit(t)}).Draw(t, "l8")
	default:
		return quote(rapid.StringN(0, 6, 12).Draw(t, "rs"))
	}
}

// dataLit is a small literal collection whose keys and string values come from the same three words,
// so that a value of one map reads like a key of another
func dataLit(t *rapid.T) string {
	w := func() string { return rapid.SampledFrom([]string{`"a"`, `"b"`, `"c"`, "1", "null"}).Draw(t, "dw") }
	m := func() string {
		n := rapid.IntRange(1, 2).Draw(t, "dn")
		var parts []string
		for i := 0; i < n; i++ {
			parts = append(parts, rapid.SampledFrom([]string{`"a"`, `"b"`, `"c"`}).Draw(t, "dk")+": "+w())
		}
		return "{" + strings.Join(parts, ", ") + "}"
	}
	switch rapid.IntRange(0, 3).Draw(t, "dl") {
	case 0:
		return m()
	case 1:
		return "[" + m() + "]"
	case 2:
		return "[" + m() + ", " + m() + "]"
	default:
		return "[" + w() + ", " + w() + "]"
	}
}

func pathElem(t *rapid.T) string {
	switch rapid.IntRange(0, 13).Draw(t, "pk") {
	case 0, 1, 2, 3:
		return "." + rapid.SampledFrom(Keys[:10]).Draw(t, "k")
	case 4:
		return ".[" + rapid.SampledFrom(nums[:10]).Draw(t, "i") + "]"
	case 5:
		return ".[]"
	case 6:
		return `.["` + rapid.SampledFrom(Keys).Draw(t, "k") + `"]`
	case 7:
		a := rapid.SampledFrom(nums[:14]).Draw(t, "s1")
		b := rapid.SampledFrom(nums[:14]).Draw(t, "s2")
		switch rapid.IntRange(0, 2).Draw(t, "sf") {
		case 0:
			return ".[" + a + ":" + b + "]"
		case 1:
			return ".[" + a + ":]"
		default:
			return ".[:" + b + "]"
		}
	case 8:
		return ".."
	case 9:
		return "." + rapid.SampledFrom(Keys).Draw(t, "k") + "?"
	case 10:
		return `."` + rapid.SampledFrom(Keys).Draw(t, "k") + `"`
	case 11:
		return ".[" + Soup(t, 1) + "]"
	case 12:
		return "$" + rapid.SampledFrom([]string{"x", "y", "i", "__loc"}).Draw(t, "v")
	default:
		return "."
	}
}

// pure restricts Soup to operators that the documentation does not describe as
// updating, deleting or in-place (C08's vocabulary); it also leaves out the
// operators C08/C18 exclude (env, load, now, shuffle, eval, split_doc).
var pure bool

var impure = map[string]bool{"now": true, "shuffle": true, "sort_keys(.)": true, "sort_keys(..)": true, "split_doc": true, "explode(.)": true, "envsubst": true, "error": true,
	"map_values": true, "del": true, "delpaths": true, "eval": true, "sort_keys": true, "explode": true, "load_str": true, "load": true, "load_xml": true, "load_props": true, "load_base64": true,
	"from_unix|tz": true, "tz": true, "array_to_map": true, "to_unix": true, "from_unix": true, "format_datetime": false, "filename": true, "file_index": true, "fi": true,
	"=": true, "|=": true, "+=": true, "-=": true, "*=": true, "*=+": true, "=c": true, "|=c": true, "sub": false, "with": true, "setpath": true, "with_dtf": false}

func pick(t *rapid.T, pool []string, label string) string {
	if !pure {
		return rapid.SampledFrom(pool).Draw(t, label)
	}
	var ok []string
	for _, p := range pool {
		if !impure[p] {
			ok = append(ok, p)
		}
	}
	return rapid.SampledFrom(ok).Draw(t, label)
}

// SoupPure generates an assignment-free expression over the read-only vocabulary.
func SoupPure(t *rapid.T, depth int) string {
	pure = true
	defer func() { pure = false }()
	return Soup(t, depth)
}

// Soup generates an expression over the entire vocabulary.
func Soup(t *rapid.T, depth int) string {
	if depth <= 0 {
		switch rapid.IntRange(0, 3).Draw(t, "leaf") {
		case 0:
			return lit(t)
		case 1:
			return pick(t, Nullary, "n0")
		default:
			return pathElem(t)
		}
	}
	switch rapid.IntRange(0, 19).Draw(t, "prod") {
	case 0, 1, 2, 3:
		op := pick(t, BinOps, "bop")
		return Soup(t, depth-1) + " " + op + " " + Soup(t, depth-1)
	case 4, 5:
		return Soup(t, depth-1) + " | " + Soup(t, depth-1)
	case 6, 7:
		f := pick(t, Unary, "f1")
		return f + "(" + Soup(t, depth-1) + ")"
	case 8:
		f := pick(t, Binary2, "f2")
		return f + "(" + Soup(t, depth-1) + "; " + Soup(t, depth-1) + ")"
	case 9:
		return "[" + Soup(t, depth-1) + "]"
	case 10:
		n := rapid.IntRange(0, 3).Draw(t, "nkv")
		var parts []string
		for i := 0; i < n; i++ {
			if rapid.IntRange(0, 5).Draw(t, "kvk") == 0 {
				parts = append(parts, Soup(t, depth-1)) // non-pair entry
			} else {
				k := rapid.SampledFrom([]string{"a", "b", `"c d"`, "(.a)", "$x", `"<<"`, "1"}).Draw(t, "ok")
				parts = append(parts, k+": "+Soup(t, depth-1))
			}
		}
		return "{" + strings.Join(parts, ", ") + "}"
	case 11:
		return "(" + Soup(t, depth-1) + ")"
	case 12:
		v := rapid.SampledFrom([]string{"x", "y", "i"}).Draw(t, "var")
		kws := []string{"as", "as", "ref"}
		if pure {
			kws = kws[:2]
		}
		kw := rapid.SampledFrom(kws).Draw(t, "askw")
		return Soup(t, depth-1) + " " + kw + " $" + v + " | " + Soup(t, depth-1)
	case 13:
		v := rapid.SampledFrom([]string{"x", "i"}).Draw(t, "var")
		return Soup(t, depth-1) + " as $" + v + " ireduce (" + Soup(t, depth-1) + "; " + Soup(t, depth-1) + ")"
	case 14:
		return pathElem(t) + pathElem(t) + pathElem(t)
	case 15:
		if pure {
			return pick(t, Nullary, "n0")
		}
		a := rapid.SampledFrom([]string{"style", "tag", "anchor", "alias", "line_comment", "head_comment", "foot_comment", "comments"}).Draw(t, "attr")
		op := rapid.SampledFrom([]string{"=", "|="}).Draw(t, "aop")
		return Soup(t, depth-1) + " " + a + " " + op + " " + Soup(t, depth-1)
	case 16:
		return pick(t, Nullary, "n0") + pathElem(t)
	case 17:
		return Soup(t, depth-1) + pathElem(t)
	case 18:
		// string with interpolation
		return `"pre\(` + Soup(t, depth-1) + `)post"`
	default:
		if rapid.Bool().Draw(t, "dd") {
			// two small collections over the same words, compared, subtracted or merged
			return dataLit(t) + " " + rapid.SampledFrom([]string{"-", "==", "!=", "+", "*", "*d", "<"}).Draw(t, "dop") + " " + dataLit(t)
		}
		return pick(t, Nullary, "n0")
	}
}

// Mutate applies n token/byte level mutations to s.
func Mutate(t *rapid.T, s string, n int) string {
	hostile := []string{"(", ")", "[", "]", "{", "}", "|", ",", ".", "..", ":", ";", "\"", "\\", "$", "=", "*", "-", "#", " ", "\n", "\x00", "?", ".[", "]?", "as", "ireduce", "//", "\xff", "0x", "1e", "@", "\\(", "::"}
	for i := 0; i < n; i++ {
		r := []byte(s)
		if len(r) == 0 {
			s = rapid.SampledFrom(hostile).Draw(t, "ins")
			continue
		}
		p := rapid.IntRange(0, len(r)-1).Draw(t, "mp")
		switch rapid.IntRange(0, 5).Draw(t, "mk") {
		case 0: // delete a span
			q := p + rapid.IntRange(1, 4).Draw(t, "ml")
			if q > len(r) {
				q = len(r)
			}
			s = string(r[:p]) + string(r[q:])
		case 1: // insert hostile token
			s = string(r[:p]) + rapid.SampledFrom(hostile).Draw(t, "ins") + string(r[p:])
		case 2: // duplicate a span
			q := p + rapid.IntRange(1, 8).Draw(t, "ml")
			if q > len(r) {
				q = len(r)
			}
			s = string(r[:q]) + string(r[p:q]) + string(r[q:])
		case 3: // truncate
			s = string(r[:p])
		case 4: // flip a byte
			r[p] = byte(rapid.IntRange(0, 255).Draw(t, "by"))
			s = string(r)
		default: // swap halves
			s = string(r[p:]) + string(r[:p])
		}
	}
	return s
}

// ---------------------------------------------------------------------------
// loosely valid texts of each input format (C11 inputs; C14/C19 have their own
// ground-truth generators)

func word(t *rapid.T) string {
	return rapid.SampledFrom([]string{"a", "b", "c", "k", "x", "name", "a*", "1", "true", "null", "~", "<<", "a b", "é", "0x1F", "1.5", "", "-", "a.b", "a[0]", "[", "#x", "'q'", "\"d\"", "x: y", "<t>", "1e3", "2021-01-01"}).Draw(t, "w")
}

func yamlVal(t *rapid.T, depth int, indent string) string {
	if depth <= 0 {
		return rapid.SampledFrom([]string{"1", "a", "null", "~", "true", "1.5", "0x1F", "0o7", "'s'", "\"d\\n\"", "*x", "&x 1", "!!str 1", "!t v", "[]", "{}", "[1, a]", "{a: 1}", "|\n" + indent + "  lit", ">-\n" + indent + "  fold", "", "2001-12-14t21:59:43.10-05:00", ".inf", ".nan", "<<", "eval(.a)", ".a", "eval(.)", "\".[] | eval(.)\""}).Draw(t, "ysc")
	}
	switch rapid.IntRange(0, 3).Draw(t, "yk") {
	case 0:
		n := rapid.IntRange(1, 3).Draw(t, "n")
		var b strings.Builder
		for i := 0; i < n; i++ {
			k := rapid.SampledFrom([]string{"a", "b", "c", "<<", "? x", "1", "&k a", "\"q\"", "a b"}).Draw(t, "yk")
			b.WriteString("\n" + indent + k + ": " + yamlVal(t, depth-1, indent+"  "))
			if rapid.IntRange(0, 5).Draw(t, "cm") == 0 {
				b.WriteString(" # c")
			}
		}
		return b.String()
	case 1:
		n := rapid.IntRange(1, 3).Draw(t, "n")
		var b strings.Builder
		for i := 0; i < n; i++ {
			b.WriteString("\n" + indent + "- " + yamlVal(t, depth-1, indent+"  "))
		}
		return b.String()
	default:
		return yamlVal(t, 0, indent)
	}
}

// LooseText returns a mostly well-formed text of the given input format.
func LooseText(t *rapid.T, format string) string {
	switch format {
	case "yaml":
		n := rapid.IntRange(1, 3).Draw(t, "ndocs")
		var b strings.Builder
		for i := 0; i < n; i++ {
			if i > 0 || rapid.Bool().Draw(t, "lead") {
				b.WriteString("---")
			}
			if rapid.IntRange(0, 4).Draw(t, "hc") == 0 {
				b.WriteString("\n# head")
			}
			b.WriteString(strings.TrimPrefix(yamlVal(t, rapid.IntRange(0, 3).Draw(t, "d"), ""), "") + "\n")
		}
		return b.String()
	case "json":
		return jsonLoose(t, rapid.IntRange(0, 3).Draw(t, "d"))
	case "xml":
		return xmlLoose(t, rapid.IntRange(0, 3).Draw(t, "d"))
	case "props":
		n := rapid.IntRange(0, 5).Draw(t, "n")
		var b strings.Builder
		for i := 0; i < n; i++ {
			switch rapid.IntRange(0, 6).Draw(t, "pk") {
			case 0:
				b.WriteString("# " + word(t) + "\n")
			case 1:
				b.WriteString(word(t) + "\n")
			default:
				k := rapid.SampledFrom([]string{"a", "a.b", "a.0", "a.1.b", "a[0]", "a.b.c", "x", "a*", "a..b", ".a", "a.", "0", "a\\ b", "a\\=b"}).Draw(t, "k")
				sep := rapid.SampledFrom([]string{"=", " = ", ":", " ", ""}).Draw(t, "sep")
				b.WriteString(k + sep + word(t) + rapid.SampledFrom([]string{"", "\\", "\\u00e9", "\\n"}).Draw(t, "tail") + "\n")
			}
		}
		return b.String()
	case "csv", "tsv":
		sep := ","
		if format == "tsv" {
			sep = "\t"
		}
		rows := rapid.IntRange(0, 4).Draw(t, "rows")
		cols := rapid.IntRange(0, 4).Draw(t, "cols")
		var b strings.Builder
		for r := 0; r < rows; r++ {
			nc := cols
			if rapid.IntRange(0, 6).Draw(t, "rag") == 0 {
				nc = rapid.IntRange(0, 5).Draw(t, "nc")
			}
			var cells []string
			for c := 0; c < nc; c++ {
				w := word(t)
				if rapid.IntRange(0, 4).Draw(t, "q") == 0 {
					w = `"` + strings.ReplaceAll(w, `"`, `""`) + `"`
				}
				cells = append(cells, w)
			}
			b.WriteString(strings.Join(cells, sep) + rapid.SampledFrom([]string{"\n", "\r\n", "\n"}).Draw(t, "eol"))
		}
		return b.String()
	case "toml":
		return tomlLoose(t)
	case "lua":
		if rapid.IntRange(0, 3).Draw(t, "lprog") == 0 {
			return luaProgram(t)
		}
		return "return " + luaLoose(t, rapid.IntRange(0, 3).Draw(t, "d")) + rapid.SampledFrom([]string{";\n", "\n", ""}).Draw(t, "end")
	case "base64":
		return rapid.SampledFrom([]string{"YQ==", "YQ", "YWJj", "", "!!!", "YW Jj", "YQ=\n", "4pyT"}).Draw(t, "b64")
	case "uri":
		return rapid.SampledFrom([]string{"a%20b", "%", "%zz", "a+b", "%E2%9C%93", "", "%0"}).Draw(t, "uri")
	}
	return ""
}

func jsonLoose(t *rapid.T, depth int) string {
	if depth <= 0 {
		return rapid.SampledFrom([]string{"1", "-0", "1.5", "1e400", "9007199254740993", "123456789012345678901234567890", "\"a\"", "\"\\u0000\"", "\"\\ud800\"", "true", "false", "null", "[]", "{}", "\"<<\""}).Draw(t, "jsc")
	}
	if rapid.Bool().Draw(t, "jk") {
		n := rapid.IntRange(0, 3).Draw(t, "n")
		var parts []string
		for i := 0; i < n; i++ {
			parts = append(parts, strconv.Quote(rapid.SampledFrom(Keys).Draw(t, "k"))+": "+jsonLoose(t, depth-1))
		}
		return "{" + strings.Join(parts, ", ") + "}"
	}
	n := rapid.IntRange(0, 3).Draw(t, "n")
	var parts []string
	for i := 0; i < n; i++ {
		parts = append(parts, jsonLoose(t, depth-1))
	}
	return "[" + strings.Join(parts, ",") + "]"
}

func xmlLoose(t *rapid.T, depth int) string {
	name := rapid.SampledFrom([]string{"a", "b", "c", "ns:a", "x-y", "_z"}).Draw(t, "xn")
	attrs := ""
	for i := rapid.IntRange(0, 2).Draw(t, "na"); i > 0; i-- {
		attrs += fmt.Sprintf(` %s="%s"`, rapid.SampledFrom([]string{"id", "k", "xmlns", "xmlns:ns", "a:b"}).Draw(t, "an"), rapid.SampledFrom([]string{"1", "", "a b", "&lt;", "é"}).Draw(t, "av"))
	}
	pre := rapid.SampledFrom([]string{"", "", "<?xml version=\"1.0\"?>\n", "<!DOCTYPE a>\n", "<!-- c -->\n"}).Draw(t, "pre")
	if depth <= 0 {
		switch rapid.IntRange(0, 4).Draw(t, "xl") {
		case 0:
			return pre + "<" + name + attrs + "/>"
		case 1:
			return pre + "<" + name + attrs + ">" + rapid.SampledFrom([]string{"t", "1", " ", "&amp;", "<![CDATA[x]]>", "a<!--c-->b"}).Draw(t, "xt") + "</" + name + ">"
		default:
			return pre + "<" + name + attrs + ">txt</" + name + ">"
		}
	}
	var b strings.Builder
	b.WriteString(pre + "<" + name + attrs + ">")
	for i := rapid.IntRange(0, 3).Draw(t, "nc"); i > 0; i-- {
		if rapid.IntRange(0, 5).Draw(t, "cm") == 0 {
			b.WriteString("<!-- c" + strconv.Itoa(i) + " -->")
		}
		if rapid.IntRange(0, 5).Draw(t, "tx") == 0 {
			b.WriteString("text")
		}
		b.WriteString(xmlLoose(t, depth-1))
	}
	b.WriteString("</" + name + ">")
	return b.String()
}

func tomlLoose(t *rapid.T) string {
	var b strings.Builder
	n := rapid.IntRange(0, 6).Draw(t, "n")
	for i := 0; i < n; i++ {
		switch rapid.IntRange(0, 8).Draw(t, "tk") {
		case 0:
			b.WriteString("[" + rapid.SampledFrom([]string{"t", "t.u", "a", "\"q k\"", "t.u.v"}).Draw(t, "tn") + "]\n")
		case 1:
			b.WriteString("[[" + rapid.SampledFrom([]string{"arr", "t.arr", "a"}).Draw(t, "tn") + "]]\n")
		case 2:
			b.WriteString("# comment\n")
		default:
			k := rapid.SampledFrom([]string{"a", "b", "c", "a.b", "\"a*\"", "'q'", "x.y.z", "1"}).Draw(t, "k")
			v := rapid.SampledFrom([]string{"1", "-1", "0x1F", "0o17", "0b11", "1_000", "1.5", "inf", "nan", "true", "\"s\"", "'l'", "\"\"\"m\nl\"\"\"", "[1, 2]", "[]", "[[1],[2]]", "{x = 1}", "{x = {y = 2}}", "1979-05-27T07:32:00Z", "1979-05-27", "07:32:00", "[{a=1},{a=2}]", "9223372036854775808"}).Draw(t, "v")
			b.WriteString(k + " = " + v + "\n")
		}
	}
	return b.String()
}

// luaProgram is a terminating Lua chunk of several statements: tables that share or contain each other,
// globals without a return, several returned values
func luaProgram(t *rapid.T) string {
	var b strings.Builder
	local := rapid.SampledFrom([]string{"local ", ""}).Draw(t, "loc")
	b.WriteString(local + "t = " + luaLoose(t, rapid.IntRange(1, 2).Draw(t, "d")) + "\n")
	b.WriteString(local + "u = " + rapid.SampledFrom([]string{"{}", "{t}", "{a = t}", "t", "{1, 2}", "nil"}).Draw(t, "u") + "\n")
	n := rapid.IntRange(0, 3).Draw(t, "nst")
	for i := 0; i < n; i++ {
		b.WriteString(rapid.SampledFrom([]string{"t.a = u", "t[1] = u", "t.self = t", "t[#t + 1] = t", "u = {u}", "t.b = {t.a, t.a}", "t.a = nil", "t[2] = 'x'", "t.f = function() return 1 end", "u = t.a"}).Draw(t, "st") + "\n")
	}
	b.WriteString(rapid.SampledFrom([]string{"return t\n", "return t, u\n", "return u\n", "", "return\n", "return {t, t}\n"}).Draw(t, "ret"))
	return b.String()
}

func luaLoose(t *rapid.T, depth int) string {
	if depth <= 0 {
		return rapid.SampledFrom([]string{"1", "-1", "1.5", "0x1F", "1e3", "\"s\"", "'s'", "[[long]]", "[==[l]]]==]", "true", "false", "nil", "{}", "1/0", "-(1/0)", "0/0", "math.huge", "x"}).Draw(t, "lsc")
	}
	n := rapid.IntRange(0, 3).Draw(t, "n")
	var parts []string
	for i := 0; i < n; i++ {
		switch rapid.IntRange(0, 3).Draw(t, "lk") {
		case 0:
			parts = append(parts, luaLoose(t, depth-1))
		case 1:
			parts = append(parts, rapid.SampledFrom([]string{"a", "b", "_c"}).Draw(t, "k")+" = "+luaLoose(t, depth-1))
		default:
			parts = append(parts, "["+rapid.SampledFrom([]string{"\"k\"", "1", "2", "true", "1.5", "\"a b\""}).Draw(t, "k")+"] = "+luaLoose(t, depth-1))
		}
	}
	return "{" + strings.Join(parts, rapid.SampledFrom([]string{", ", "; ", ",\n"}).Draw(t, "sep")) + rapid.SampledFrom([]string{"", ","}).Draw(t, "tr") + "}"
}

// ---------------------------------------------------------------------------
// Generator bound (stated in DESIGN.md, C11): a sequence index is an explicit
// request for a sequence at least that long, so `.[N] = v` (and, in a writable
// context, even reading `.[N]`) allocates N nodes. Indices are therefore kept
// <= 255 (padding combines multiplicatively with cross products): when an expression can turn a number into an index (dynamic index,
// setpath, pick) every literal above that bound is replaced.

var hugeLit = regexp.MustCompile(`0[xX][0-9A-Fa-f]{3,}|\d{4,}|\d(\.\d+)?[eE]\+?\d+`)
var staticIdx = regexp.MustCompile(`^(-?\d{1,3}|"[^"]*"|-?\d{0,19}:-?\d{0,19}|)$`)

var dotDigits = regexp.MustCompile(`\.\d{4,}`)

func hasDynamicIndex(e string) bool {
	if dotDigits.MatchString(e) {
		return true // `.123456` is an index when the node is a sequence
	}
	if strings.Contains(e, "setpath") || strings.Contains(e, "set_path") || strings.Contains(e, "pick") {
		return true
	}
	for i := 0; i+1 < len(e); i++ {
		if e[i] == '.' && e[i+1] == '[' {
			depth, j := 0, i+1
			for ; j < len(e); j++ {
				if e[j] == '[' {
					depth++
				} else if e[j] == ']' {
					depth--
					if depth == 0 {
						break
					}
				}
			}
			if j >= len(e) {
				return true
			}
			if !staticIdx.MatchString(strings.TrimSpace(e[i+2 : j])) {
				return true
			}
		}
	}
	return false
}

// BoundCase applies the bound to an expression and to the input it runs on:
// with a dynamic index, numbers of the document can become indices too.
// an assignment operator (plain, update or compound), not a comparison
var assignOp = regexp.MustCompile(`(^|[^=!<>])(\|=|[-+*/]=|=)([^=]|$)`)

var recAssign = regexp.MustCompile(`\.\.\.?\s*[-+*/]?=([^=]|$)`)

// boundRepeat: `string * n` repeats the string, and two such steps in a row (`"a" * 65536 | length * @tsv`) ask
// for gigabytes: where an expression multiplies, literals of four or more digits are replaced
func boundRepeat(e string) string {
	if strings.Contains(e, "*") && hugeLit.MatchString(e) {
		return hugeLit.ReplaceAllString(e, "7")
	}
	return e
}

func BoundCase(e, input string) (string, string) {
	e = boundRepeat(e)
	// an assignment to every node of a recursive descent whose value holds the context again (`.. = .`,
	// `... = .. = .`) embeds the document into itself once per node: exponential output by construction
	// (3 keys: 64 GB), not a crash site. The descent is replaced by a plain path.
	if recAssign.MatchString(e) {
		e = strings.ReplaceAll(strings.ReplaceAll(e, "...", ".a"), "..", ".a")
	}
	// the same through nesting: the value of an assignment is the whole context again, so `.* = .* = .` (or
	// `.[] = (.[] = .)`) hands every match a copy of a document that the inner assignment has just grown, once
	// per match, re-read after every write (the open C02 finding): exponential as well. With two or more
	// assignments in one expression the targets that match many nodes are replaced by single paths.
	if len(assignOp.FindAllString(e, -1)) >= 2 {
		e = strings.ReplaceAll(e, "...", ".a")
		e = strings.ReplaceAll(e, "..", ".a")
		e = strings.ReplaceAll(e, "[]", "[0]")
		e = strings.ReplaceAll(e, ".*", ".a")
		e = strings.ReplaceAll(e, `"*"`, `"a"`)
	}
	if !hasDynamicIndex(e) {
		return e, input
	}
	return hugeLit.ReplaceAllString(e, "7"), hugeLit.ReplaceAllString(input, "7")
}

// BoundIndices applies the generator bound described above.
func BoundIndices(e string) string {
	e = boundRepeat(e)
	if !hugeLit.MatchString(e) || !hasDynamicIndex(e) {
		return e
	}
	return hugeLit.ReplaceAllString(e, "7")
}

var propsIdx = regexp.MustCompile(`\d{3,}`)

// BoundInput applies the same bound to inputs whose text holds indices itself: a numeric component of a
// properties key (`a.1020 = x`) asks for a sequence that long.
func BoundInput(format, input string) string {
	if format == "props" || format == "properties" {
		return propsIdx.ReplaceAllString(input, "7")
	}
	return input
}
