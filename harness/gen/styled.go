package gen

import (
	"fmt"
	"math/big"
	"strings"

	"pgregory.net/rapid"
	"verif/model"
)

// ---------------------------------------------------------------------------
// Styled YAML with ground truth: the generator builds the tree first (values,
// scalar and collection styles, comments, anchors/aliases, tags) and prints the
// text from it with its own emitter.

const (
	YScalar = iota
	YMap
	YSeq
	YAlias
)

const (
	Plain = iota
	Single
	Double
	Literal
	Folded
)

type YN struct {
	K      int    `json:"k"`
	T      string `json:"t,omitempty"` // scalar type: str int float bool null
	S      string `json:"s,omitempty"` // string value, or the plain spelling of a non-string
	Style  int    `json:"style,omitempty"`
	Flow   bool   `json:"flow,omitempty"`
	Tag    string `json:"tag,omitempty"` // explicit tag as printed
	Anchor string `json:"anchor,omitempty"`
	Target *YN    `json:"-"`
	TName  string `json:"target,omitempty"`
	Keys   []*YN  `json:"keys,omitempty"`
	Vals   []*YN  `json:"vals,omitempty"`
	Elem   []*YN  `json:"elem,omitempty"`
	Head   string `json:"head,omitempty"`
	Line   string `json:"line,omitempty"`
	Merge  bool   `json:"merge,omitempty"` // this map entry key is `<<`
}

// YDoc is one document of a stream.
type YDoc struct {
	Root        *YN    `json:"root"`
	Sep         bool   `json:"sep"`            // starts with ---
	LeadComment string `json:"lead,omitempty"` // comment block before the document (before ---)
	Trail       string `json:"trail,omitempty"`
}

type YOpts struct {
	Depth      int
	Comments   bool
	Anchors    bool
	Tags       bool
	Flow       bool
	Blocks     bool // literal / folded scalars
	MergeKeys  bool
	LineOnFlow bool // line comments on flow / empty collections (C07)
	Hostile    bool // strings with control characters, huge numbers ... (C06)
	StrKeys    bool
}

type ygen struct {
	t       *rapid.T
	o       YOpts
	anchors []*YN
	nAnchor int
	nCom    int
}

var plainWords = []string{"a", "b", "abc", "cat", "dog", "hello world", "x1", "foo-bar", "snake_case", "Value", "k9"}
var lookalikes = []string{"true", "false", "null", "~", "123", "1.5", "0x1F", "-7", "", " lead", "trail ", "yes", "no", "on", "off", "a: b", "- x", "# not comment", "[x]", "{y}", "&a", "*a", "!t", "%d", "@at", "`bt", "|", ">", "'", "\"", "a#b", "a #b", "null ", "1e3", ".inf", "<<", "?", ":", "-"}
var unicodeStrs = []string{"é", "日本語", "😀 smile", "ß", "a b", "line1\nline2", "tab\there", "q\"uote", "back\\slash", "it's", "crlf\r\nx", "bell\a", "nul-free \x01 ctl", " sep", "trailing nl\n"}

func (g *ygen) comment() string {
	g.nCom++
	return fmt.Sprintf("c%d %s", g.nCom, rapid.SampledFrom([]string{"note", "todo: x", "a#b", "é", "k: v", "- dash"}).Draw(g.t, "ctxt"))
}

func (g *ygen) scalar(forKey bool) *YN {
	t := g.t
	n := &YN{K: YScalar}
	switch k := rapid.IntRange(0, 11).Draw(t, "sk"); {
	case k <= 1 && !forKey:
		n.T = "int"
		n.S = rapid.SampledFrom([]string{"0", "1", "-1", "42", "1000", "2147483648", "-9223372036854775808", "9223372036854775807", "7"}).Draw(t, "int")
		if g.o.Hostile && rapid.IntRange(0, 3).Draw(t, "big") == 0 {
			n.S = rapid.SampledFrom([]string{"9007199254740993", "-9007199254740993", "4611686018427387904", "9223372036854775808", "18446744073709551615", "0x1F", "0x7FFFFFFFFFFFFFFF", "0x8000000000000000", "0xFFFFFFFFFFFFFFFF", "0o17", "-0x10", "+0x1F", "-0o17", "0b101", "-0b11", "-0x8000000000000000"}).Draw(t, "bigint")
			if rapid.IntRange(0, 4).Draw(t, "huge") == 0 {
				// typed !!float by the YAML reader: the YAML leg of the open big-integer finding, kept rare
				n.S = rapid.SampledFrom([]string{"-9223372036854775809", "123456789012345678901234567890"}).Draw(t, "hugeint")
			}
		}
	case k == 2 && !forKey:
		n.T = "float"
		n.S = rapid.SampledFrom([]string{"1.5", "-0.25", "3.0", "100.125", "0.1", "2.5e+10", "1.0e-05"}).Draw(t, "float")
	case k == 3 && !forKey:
		n.T = "bool"
		n.S = rapid.SampledFrom([]string{"true", "false", "true", "false", "True", "TRUE", "False", "FALSE"}).Draw(t, "bool")
	case k == 4 && !forKey:
		n.T = "null"
		n.S = rapid.SampledFrom([]string{"null", "~", "null", "~", "Null", "NULL"}).Draw(t, "null")
	default:
		n.T = "str"
		switch rapid.IntRange(0, 5).Draw(t, "strk") {
		case 0, 1, 2:
			n.S = rapid.SampledFrom(plainWords).Draw(t, "word")
			n.Style = rapid.SampledFrom([]int{Plain, Plain, Single, Double}).Draw(t, "wstyle")
		case 3:
			n.S = rapid.SampledFrom(lookalikes).Draw(t, "look")
			n.Style = rapid.SampledFrom([]int{Single, Double}).Draw(t, "lstyle")
		case 4:
			n.S = rapid.SampledFrom(unicodeStrs).Draw(t, "uni")
			n.Style = Double
			if !strings.ContainsAny(n.S, "\n\r\t\a\x01\\ ") && rapid.Bool().Draw(t, "usingle") {
				n.Style = Single
			}
		default:
			if g.o.Blocks && !forKey {
				lines := rapid.SliceOfN(rapid.SampledFrom([]string{"first line", "second", "x: y", "# hash", "- item", "last one", "tab\tin", "é line"}), 1, 3).Draw(t, "blines")
				if rapid.Bool().Draw(t, "lit") {
					n.Style = Literal
					n.S = strings.Join(lines, "\n") + "\n"
				} else {
					n.Style = Folded
					n.S = strings.Join(lines, " ") + "\n"
				}
				n.Elem = nil
				n.Tag = ""
				// remember the source lines for the emitter
				n.Head = ""
				n.TName = strings.Join(lines, "\n")
			} else {
				n.S = rapid.SampledFrom(plainWords).Draw(t, "word2")
			}
		}
		if g.o.Hostile && rapid.IntRange(0, 3).Draw(t, "host") == 0 {
			n.S = rapid.SampledFrom([]string{"\x00nul", "\x1f", "\x7f del", "<tag>&amp;", " ", "\U0001F600\U0001F601", "\\u0041", "\"\"", "'", "\b\f", "a\u0085b", strings.Repeat("long ", 30)}).Draw(t, "hostile")
			n.Style = Double
		}
	}
	if g.o.Tags && !forKey && (n.Style == Literal || n.Style == Folded) && rapid.IntRange(0, 3).Draw(t, "btagged") == 0 {
		// an explicit tag on a block scalar: `!custom |`, `!!str >`
		n.Tag = rapid.SampledFrom([]string{"!custom", "!my/tag", "!!str"}).Draw(t, "bctag")
	}
	if g.o.Tags && !forKey && n.Style != Literal && n.Style != Folded && rapid.IntRange(0, 11).Draw(t, "tagged") == 0 {
		if n.T == "int" || n.T == "bool" {
			// `!!str 123`: the tag makes it a string
			n.Tag = "!!str"
			n.T = "str"
		} else if n.T == "str" {
			n.Tag = rapid.SampledFrom([]string{"!custom", "!my/tag", "!!str"}).Draw(t, "ctag")
		}
	}
	return n
}

func (g *ygen) maybeAnchor(n *YN) {
	// a collection may carry the anchor name one of its descendants defines again: an alias after it means the
	// descendant (the latest definition before the alias), so the collection itself is never an alias target
	if g.o.Anchors && (n.K == YMap || n.K == YSeq) && rapid.IntRange(0, 11).Draw(g.t, "anchreuse") == 0 {
		var inner *YN
		n.Walk(func(x *YN) {
			if x != n && x.Anchor != "" && inner == nil {
				inner = x
			}
		})
		if inner != nil {
			n.Anchor = inner.Anchor
			return
		}
	}
	if g.o.Anchors && n.K != YAlias && rapid.IntRange(0, 5).Draw(g.t, "anch") == 0 && !(n.K == YScalar && (n.Style == Literal || n.Style == Folded)) {
		g.nAnchor++
		n.Anchor = fmt.Sprintf("a%d", g.nAnchor)
		g.anchors = append(g.anchors, n)
	}
}

func (g *ygen) key(used map[string]bool) *YN {
	for i := 0; i < 10; i++ {
		k := g.scalar(true)
		if k.Style == Literal || k.Style == Folded {
			continue
		}
		if g.o.StrKeys && k.T != "str" {
			continue
		}
		if strings.ContainsAny(k.S, "\n\r") || len(k.S) > 40 || k.S == "<<" {
			continue
		}
		if !used[k.S] {
			used[k.S] = true
			return k
		}
	}
	for i := 0; ; i++ {
		s := fmt.Sprintf("key%d", i)
		if !used[s] {
			used[s] = true
			return &YN{K: YScalar, T: "str", S: s}
		}
	}
}

func (g *ygen) value(depth int, inFlow bool) *YN {
	t := g.t
	if g.o.Anchors && len(g.anchors) > 0 && rapid.IntRange(0, 7).Draw(t, "alias") == 0 {
		tg := rapid.SampledFrom(g.anchors).Draw(t, "target")
		al := &YN{K: YAlias, Target: tg, TName: tg.Anchor}
		if g.o.Comments && !inFlow {
			if rapid.IntRange(0, 4).Draw(t, "ahc") == 0 {
				al.Head = g.comment()
			}
			if rapid.IntRange(0, 3).Draw(t, "alc") == 0 {
				al.Line = g.comment()
			}
		}
		return al
	}
	k := rapid.IntRange(0, 9).Draw(t, "vk")
	if depth <= 0 {
		k = 0
	}
	var n *YN
	switch {
	case k <= 3:
		n = g.scalar(false)
		if inFlow && (n.Style == Literal || n.Style == Folded) {
			n.Style = Double
		}
	case k <= 6:
		n = &YN{K: YMap}
		n.Flow = inFlow || (g.o.Flow && rapid.IntRange(0, 4).Draw(t, "mflow") == 0)
		used := map[string]bool{}
		for i := rapid.IntRange(0, 4).Draw(t, "mn"); i > 0; i-- {
			n.Keys = append(n.Keys, g.key(used))
			n.Vals = append(n.Vals, g.value(depth-1, n.Flow))
		}
	default:
		n = &YN{K: YSeq}
		n.Flow = inFlow || (g.o.Flow && rapid.IntRange(0, 4).Draw(t, "sflow") == 0)
		for i := rapid.IntRange(0, 4).Draw(t, "sn"); i > 0; i-- {
			n.Elem = append(n.Elem, g.value(depth-1, n.Flow))
		}
	}
	g.maybeAnchor(n)
	if g.o.Comments && !inFlow {
		if rapid.IntRange(0, 4).Draw(t, "hc") == 0 {
			n.Head = g.comment()
		}
		if n.K == YScalar && n.Style != Literal && n.Style != Folded && rapid.IntRange(0, 4).Draw(t, "lc") == 0 {
			n.Line = g.comment()
		}
		// a collection written on one line (flow, or empty) can carry a line comment as well: `k: [] # c`
		if g.o.LineOnFlow && (n.K == YMap || n.K == YSeq) && (n.Flow || n.Len() == 0) && rapid.IntRange(0, 3).Draw(t, "lcf") == 0 {
			n.Line = g.comment()
		}
	}
	return n
}

// StyledStream generates 1..maxDocs documents.
func StyledStream(t *rapid.T, o YOpts, maxDocs int) []*YDoc {
	g := &ygen{t: t, o: o}
	if o.Depth == 0 {
		g.o.Depth = 3
	}
	n := rapid.IntRange(1, maxDocs).Draw(t, "ndocs")
	var docs []*YDoc
	for i := 0; i < n; i++ {
		g.anchors = nil // anchors are per document
		d := &YDoc{Sep: i > 0 || rapid.Bool().Draw(t, "sep")}
		// the root is a collection most of the time
		for try := 0; try < 3; try++ {
			g.anchors = nil
			d.Root = g.value(g.o.Depth, false)
			if d.Root.K == YMap || d.Root.K == YSeq {
				break
			}
		}
		if d.Root.K == YAlias {
			d.Root = &YN{K: YMap}
		}
		d.Root.Head = ""
		if o.Comments && i == 0 && rapid.IntRange(0, 2).Draw(t, "leadc") == 0 {
			d.LeadComment = g.comment()
		}
		if o.Comments && i == n-1 && rapid.IntRange(0, 4).Draw(t, "trailc") == 0 && (d.Root.K == YMap || d.Root.K == YSeq) && !d.Root.Flow && d.Root.Len() > 0 {
			d.Trail = g.comment()
		}
		docs = append(docs, d)
	}
	return docs
}

func (n *YN) Len() int { return len(n.Keys) + len(n.Elem) }

// ---------------------------------------------------------------------------
// emitter

func needsQuote(s string) bool { return false }

func dq(s string) string {
	var b strings.Builder
	b.WriteByte('"')
	for _, r := range s {
		switch r {
		case '"':
			b.WriteString(`\"`)
		case '\\':
			b.WriteString(`\\`)
		case '\n':
			b.WriteString(`\n`)
		case '\r':
			b.WriteString(`\r`)
		case '\t':
			b.WriteString(`\t`)
		case '\a':
			b.WriteString(`\a`)
		case '\b':
			b.WriteString(`\b`)
		case '\f':
			b.WriteString(`\f`)
		case 0:
			b.WriteString(`\0`)
		case 0x85:
			b.WriteString(`\N`)
		case 0x2028:
			b.WriteString(`\L`)
		case 0x2029:
			b.WriteString(`\P`)
		default:
			if r < 0x20 || r == 0x7f {
				fmt.Fprintf(&b, `\x%02x`, r)
			} else {
				b.WriteRune(r)
			}
		}
	}
	b.WriteByte('"')
	return b.String()
}

func (n *YN) props() string {
	p := ""
	if n.Anchor != "" {
		p += "&" + n.Anchor + " "
	}
	if n.Tag != "" {
		p += n.Tag + " "
	}
	return p
}

// inline renders a scalar / alias / flow collection on one line (no block scalars).
func (n *YN) inline() string {
	switch n.K {
	case YAlias:
		return "*" + n.TName
	case YScalar:
		switch n.Style {
		case Single:
			return n.props() + "'" + strings.ReplaceAll(n.S, "'", "''") + "'"
		case Double:
			return n.props() + dq(n.S)
		default:
			return strings.TrimRight(n.props()+n.S, " ")
		}
	case YMap:
		var parts []string
		for i, k := range n.Keys {
			parts = append(parts, k.inline()+": "+n.Vals[i].inline())
		}
		return n.props() + "{" + strings.Join(parts, ", ") + "}"
	default:
		var parts []string
		for _, e := range n.Elem {
			parts = append(parts, e.inline())
		}
		return n.props() + "[" + strings.Join(parts, ", ") + "]"
	}
}

func (n *YN) isBlockScalar() bool {
	return n.K == YScalar && (n.Style == Literal || n.Style == Folded)
}

func (n *YN) isInline() bool {
	return n.K == YAlias || (n.K == YScalar && !n.isBlockScalar()) || n.Flow || n.Len() == 0
}

func lineComment(n *YN) string {
	if n.Line != "" {
		return " # " + n.Line
	}
	return ""
}

// emitValue writes the value that follows "key:" or "-" (prefix already written, without newline).
func emitValue(b *strings.Builder, n *YN, indent string) {
	switch {
	case n.isBlockScalar():
		ind := "|"
		if n.Style == Folded {
			ind = ">"
		}
		b.WriteString(" " + n.props() + ind + "\n")
		for _, l := range strings.Split(n.TName, "\n") {
			b.WriteString(indent + "  " + l + "\n")
		}
	case n.isInline():
		if n.K != YAlias && n.Len() == 0 && n.K != YScalar {
			if n.K == YMap {
				b.WriteString(" " + n.props() + "{}" + lineComment(n) + "\n")
			} else {
				b.WriteString(" " + n.props() + "[]" + lineComment(n) + "\n")
			}
			return
		}
		s := n.inline()
		if s == "" {
			b.WriteString(lineComment(n) + "\n")
		} else {
			b.WriteString(" " + s + lineComment(n) + "\n")
		}
	default:
		p := strings.TrimRight(n.props(), " ")
		if p != "" {
			b.WriteString(" " + p)
		}
		b.WriteString("\n")
		emitBlock(b, n, indent+"  ")
	}
}

func emitBlock(b *strings.Builder, n *YN, indent string) {
	switch n.K {
	case YMap:
		for i, k := range n.Keys {
			v := n.Vals[i]
			if v.Head != "" {
				b.WriteString(indent + "# " + v.Head + "\n")
			}
			b.WriteString(indent + k.inline() + ":")
			emitValue(b, v, indent)
		}
	case YSeq:
		for _, v := range n.Elem {
			if v.Head != "" {
				b.WriteString(indent + "# " + v.Head + "\n")
			}
			b.WriteString(indent + "-")
			emitValue(b, v, indent)
		}
	}
}

// Text prints the stream.
func Text(docs []*YDoc) string {
	var b strings.Builder
	for _, d := range docs {
		if d.LeadComment != "" {
			b.WriteString("# " + d.LeadComment + "\n")
		}
		if d.Sep {
			b.WriteString("---")
			if d.Root.isInline() || d.Root.isBlockScalar() {
				emitValue(&b, d.Root, "")
			} else {
				p := strings.TrimRight(d.Root.props(), " ")
				if p != "" {
					b.WriteString(" " + p)
				}
				b.WriteString("\n")
				emitBlock(&b, d.Root, "")
			}
		} else {
			if d.Root.isInline() || d.Root.isBlockScalar() || d.Root.props() != "" {
				// without a separator the root goes on its own line(s)
				var tmp strings.Builder
				emitValue(&tmp, d.Root, "")
				b.WriteString(strings.TrimPrefix(tmp.String(), " "))
			} else {
				emitBlock(&b, d.Root, "")
			}
		}
		if d.Trail != "" {
			b.WriteString("# " + d.Trail + "\n")
		}
	}
	return b.String()
}

// ---------------------------------------------------------------------------
// ground truth

// Data resolves aliases and gives the data value (merge keys are NOT applied: "<<" stays a key).
func (n *YN) Data() *model.Value {
	switch n.K {
	case YAlias:
		return n.Target.Data()
	case YMap:
		m := model.NewMap()
		for i, k := range n.Keys {
			m.Keys = append(m.Keys, k.S)
			m.Vals = append(m.Vals, n.Vals[i].Data())
		}
		return m
	case YSeq:
		s := model.NewSeq()
		for _, e := range n.Elem {
			s.Elem = append(s.Elem, e.Data())
		}
		return s
	}
	switch n.T {
	case "null":
		return model.NewNull()
	case "bool":
		return model.NewBool(strings.EqualFold(n.S, "true"))
	case "int":
		sign, mag := "", n.S
		if strings.HasPrefix(mag, "-") || strings.HasPrefix(mag, "+") {
			sign, mag = mag[:1], mag[1:]
		}
		for pre, base := range map[string]int{"0x": 16, "0o": 8, "0b": 2} {
			if strings.HasPrefix(mag, pre) {
				if i, ok := new(big.Int).SetString(sign+mag[2:], base); ok {
					return model.NewBig(i)
				}
			}
		}
		v, _ := model.ParseNumber(n.S)
		return v
	case "float":
		v, err := model.ParseNumber(n.S)
		if err != nil || v.K != model.Float {
			f := 0.0
			fmt.Sscanf(n.S, "%g", &f)
			return model.NewFloat(f)
		}
		return v
	}
	return model.NewStr(n.S)
}

// Walk visits nodes in document order (keys before their values).
func (n *YN) Walk(f func(*YN)) {
	f(n)
	for i, k := range n.Keys {
		f(k)
		n.Vals[i].Walk(f)
	}
	for _, e := range n.Elem {
		e.Walk(f)
	}
}

// Comments lists the comment texts of a stream in document order.
func Comments(docs []*YDoc) []string {
	var out []string
	for _, d := range docs {
		if d.LeadComment != "" {
			out = append(out, d.LeadComment)
		}
		var rec func(n *YN)
		rec = func(n *YN) {
			for i := range n.Keys {
				v := n.Vals[i]
				if v.Head != "" {
					out = append(out, v.Head)
				}
				if v.Line != "" {
					out = append(out, v.Line)
				}
				rec(v)
			}
			for _, v := range n.Elem {
				if v.Head != "" {
					out = append(out, v.Head)
				}
				if v.Line != "" {
					out = append(out, v.Line)
				}
				rec(v)
			}
		}
		if d.Root.Line != "" {
			out = append(out, d.Root.Line)
		}
		rec(d.Root)
		if d.Trail != "" {
			out = append(out, d.Trail)
		}
	}
	return out
}

// Relink restores Target pointers after JSON decoding (replay).
func Relink(docs []*YDoc) {
	for _, d := range docs {
		anch := map[string]*YN{}
		d.Root.Walk(func(n *YN) {
			if n.Anchor != "" {
				anch[n.Anchor] = n
			}
			if n.K == YAlias {
				n.Target = anch[n.TName]
			}
		})
	}
}

var _ = needsQuote
