package hx

import (
	"bytes"
	"context"
	"os"
	"os/exec"
	"path/filepath"
	"syscall"
	"time"
)

// BinResult is what a run of the yq binary gave.
type BinResult struct {
	Stdout  string `json:"stdout"`
	Stderr  string `json:"stderr"`
	Exit    int    `json:"exit"` // -1 = killed by signal / timeout
	Signal  string `json:"signal,omitempty"`
	Timeout bool   `json:"timeout,omitempty"`
}

// YqPath returns the binary built from the working tree by the driver.
func YqPath() string { return os.Getenv("VERIF_YQ") }

// WorkDir is this shard's scratch directory (under /verif/.work).
func WorkDir() string {
	d := os.Getenv("VERIF_WORK")
	if d == "" {
		d = filepath.Join(VerifDir, ".work", "adhoc")
		_ = os.MkdirAll(d, 0o755)
	}
	return d
}

// RunBin executes the yq binary with a minimal environment.
func RunBin(dir string, args []string, stdin []byte, extraEnv []string, limit time.Duration) BinResult {
	return RunCmd(dir, YqPath(), args, stdin, extraEnv, limit)
}

func RunCmd(dir, prog string, args []string, stdin []byte, extraEnv []string, limit time.Duration) BinResult {
	ctx, cancel := context.WithTimeout(context.Background(), limit)
	defer cancel()
	cmd := exec.CommandContext(ctx, prog, args...)
	cmd.Dir = dir
	cmd.Env = append([]string{"PATH=/usr/bin:/bin", "HOME=/nonexistent", "NO_COLOR=1", "LANG=C.UTF-8"}, extraEnv...)
	if stdin != nil {
		cmd.Stdin = bytes.NewReader(stdin)
	}
	var so, se bytes.Buffer
	cmd.Stdout, cmd.Stderr = &so, &se
	err := cmd.Run()
	r := BinResult{Stdout: so.String(), Stderr: se.String()}
	if ctx.Err() == context.DeadlineExceeded {
		r.Timeout = true
		r.Exit = -1
		return r
	}
	if err != nil {
		if ee, ok := err.(*exec.ExitError); ok {
			if ws, ok := ee.Sys().(syscall.WaitStatus); ok && ws.Signaled() {
				r.Exit = -1
				r.Signal = ws.Signal().String()
			} else {
				r.Exit = ee.ExitCode()
			}
		} else {
			r.Exit = -2
			r.Stderr += "\nexec: " + err.Error()
		}
	}
	return r
}

// RunCmdFile is RunCmd with an open file as stdin (the child shares the file description, so the
// parent can see afterwards how much was read).
func RunCmdFile(dir, prog string, args []string, stdin *os.File, extraEnv []string, limit time.Duration) BinResult {
	ctx, cancel := context.WithTimeout(context.Background(), limit)
	defer cancel()
	cmd := exec.CommandContext(ctx, prog, args...)
	cmd.Dir = dir
	cmd.Env = append([]string{"PATH=/usr/bin:/bin", "HOME=/nonexistent", "NO_COLOR=1", "LANG=C.UTF-8"}, extraEnv...)
	cmd.Stdin = stdin
	var so, se bytes.Buffer
	cmd.Stdout, cmd.Stderr = &so, &se
	err := cmd.Run()
	r := BinResult{Stdout: so.String(), Stderr: se.String()}
	if ctx.Err() == context.DeadlineExceeded {
		r.Timeout = true
		r.Exit = -1
		return r
	}
	if err != nil {
		if ee, ok := err.(*exec.ExitError); ok {
			r.Exit = ee.ExitCode()
		} else {
			r.Exit = -2
		}
	}
	return r
}
