package hx

import (
	"crypto/sha256"
	"encoding/binary"
	"encoding/hex"
	"encoding/json"
	"flag"
	"fmt"
	"hash/fnv"
	"os"
	"path/filepath"
	"sort"
	"strconv"
	"strings"
	"sync"
	"testing"
	"time"

	"pgregory.net/rapid"
)

// Status of one judged case.
type Status int

const (
	Holds Status = iota
	Violates
	Unspecified // the oracle declines to judge (counted, never alarms)
	Discard     // generator produced something outside the sound domain (counted)
)

// Verdict is what a property's checkCase returns.
type Verdict struct {
	Status     Status
	Msg        string   // human-readable explanation of a violation
	Sig        string   // signature for known-findings matching ("" = none)
	NonTrivial bool     // counts towards distinct_nontrivial
	Key        string   // identity of the case for distinctness (hashed)
	Labels     []string // classification labels
	NoShrink   bool     // a violation that must not be shrunk (a hang: every shrink attempt would hang again)
}

func OK(nontrivial bool, key string, labels ...string) Verdict {
	return Verdict{Status: Holds, NonTrivial: nontrivial, Key: key, Labels: labels}
}
func Bad(sig, format string, a ...interface{}) Verdict {
	return Verdict{Status: Violates, Sig: sig, Msg: fmt.Sprintf(format, a...)}
}
func Unspec(labels ...string) Verdict { return Verdict{Status: Unspecified, Labels: labels} }
func Disc(labels ...string) Verdict   { return Verdict{Status: Discard, Labels: labels} }

// WithLabels appends labels.
func (v Verdict) WithLabels(l ...string) Verdict { v.Labels = append(v.Labels, l...); return v }

// ---------------------------------------------------------------------------

type violationRec struct {
	Sub    string `json:"sub"`
	Replay string `json:"replay"`
	Msg    string `json:"msg"`
}

type shardOut struct {
	Property    string                 `json:"property"`
	Shard       int                    `json:"shard"`
	Seed        uint64                 `json:"seed"`
	Tier        string                 `json:"tier"`
	Rule        string                 `json:"rule"`
	Evaluations int64                  `json:"evaluations"`
	Hashes      []string               `json:"hashes"`
	Labels      map[string]int64       `json:"labels"`
	KnownHits   map[string]int64       `json:"known_hits"`
	KnownRepro  []string               `json:"known_reproduced"`
	KnownStale  []string               `json:"known_not_reproduced"`
	Samples     []interface{}          `json:"samples"`
	Violations  []violationRec         `json:"violations"`
	SubCounts   map[string]int64       `json:"sub_counts"`
	Requested   map[string]int         `json:"requested"`
	Notes       []string               `json:"notes"`
	Assumptions []string               `json:"assumptions"`
	Extra       map[string]interface{} `json:"extra,omitempty"`
	Completed   bool                   `json:"completed"`
	WallS       float64                `json:"wall_s"`
}

type state struct {
	mu       sync.Mutex
	out      shardOut
	hashes   map[uint64]struct{}
	nsamples int
	rsv      uint64
	start    time.Time
	viol     map[string]violationRec
}

var st = &state{hashes: map[uint64]struct{}{}, viol: map[string]violationRec{}}

// TraceCurrent makes every case be written to $VERIF_WORK/cur.json before it
// runs, so a case that kills the process (fatal error, OOM) can be identified.
var TraceCurrent = true

var slowCases int

var collectMode = os.Getenv("VERIF_COLLECT") != ""

// Env
var (
	Property   string
	Tier              = "quick"
	Seed       uint64 = 1
	Shard      int
	Shards     = 1
	VerifDir   = "/verif"
	ReplayPath string
	Scale      = 1.0
)

func envInt(k string, d int) int {
	if v := os.Getenv(k); v != "" {
		if n, err := strconv.Atoi(v); err == nil {
			return n
		}
	}
	return d
}

// Main is called from TestMain of every property package.
func Main(m *testing.M, property, rule string, assumptions ...string) {
	Property = property
	if v := os.Getenv("VERIF_DIR"); v != "" {
		VerifDir = v
	}
	if v := os.Getenv("VERIF_TIER"); v == "thorough" {
		Tier = "thorough"
	}
	if v := os.Getenv("VERIF_SEED"); v != "" {
		if n, err := strconv.ParseInt(v, 10, 64); err == nil {
			Seed = uint64(n)
		}
	}
	if Seed == 0 {
		Seed = 0x9E3779B9
	}
	Shard = envInt("VERIF_SHARD", 0)
	Shards = envInt("VERIF_SHARDS", 1)
	if v := os.Getenv("VERIF_SCALE"); v != "" {
		if f, err := strconv.ParseFloat(v, 64); err == nil && f > 0 {
			Scale = f
		}
	}
	ReplayPath = os.Getenv("VERIF_REPLAY")
	st.start = time.Now()
	st.out = shardOut{Property: property, Shard: Shard, Seed: Seed, Tier: Tier, Rule: rule,
		Labels: map[string]int64{}, KnownHits: map[string]int64{}, SubCounts: map[string]int64{},
		Requested: map[string]int{}, Assumptions: assumptions, Extra: map[string]interface{}{}}
	flag.Parse()
	Init()
	loadKnown()
	code := m.Run()
	flush()
	os.Exit(code)
}

func flush() {
	st.mu.Lock()
	defer st.mu.Unlock()
	path := os.Getenv("VERIF_OUT")
	if path == "" {
		return
	}
	st.out.Hashes = st.out.Hashes[:0]
	for h := range st.hashes {
		st.out.Hashes = append(st.out.Hashes, strconv.FormatUint(h, 16))
	}
	sort.Strings(st.out.Hashes)
	st.out.Violations = nil
	for _, v := range st.viol {
		st.out.Violations = append(st.out.Violations, v)
	}
	st.out.WallS = time.Since(st.start).Seconds()
	b, _ := json.Marshal(st.out)
	_ = os.WriteFile(path, b, 0o644)
}

// Note adds a free-text note to the evidence.
func Note(format string, a ...interface{}) {
	st.mu.Lock()
	st.out.Notes = append(st.out.Notes, fmt.Sprintf(format, a...))
	st.mu.Unlock()
}

// Extra records a structured extra in the evidence.
func Extra(k string, v interface{}) {
	st.mu.Lock()
	st.out.Extra[k] = v
	st.mu.Unlock()
}

// Label counts a label outside of Judge.
func Label(l string) {
	st.mu.Lock()
	st.out.Labels[l]++
	st.mu.Unlock()
}

func hash64(s string) uint64 {
	h := fnv.New64a()
	h.Write([]byte(s))
	return h.Sum64()
}

func mix(a uint64, s string, i int) uint64 {
	x := a ^ hash64(s) ^ (uint64(i)+1)*0x9E3779B97F4A7C15
	x ^= x >> 30
	x *= 0xBF58476D1CE4E5B9
	x ^= x >> 27
	x *= 0x94D049BB133111EB
	x ^= x >> 31
	if x == 0 {
		x = 1
	}
	return x & 0x7fffffffffffffff
}

// record applies the bookkeeping for one verdict; returns true if the case
// must fail the test (unlisted violation).
func record(sub string, c interface{}, v Verdict) (fail bool, replay string) {
	st.mu.Lock()
	defer st.mu.Unlock()
	st.out.Evaluations++
	st.out.SubCounts[sub]++
	for _, l := range v.Labels {
		st.out.Labels[l]++
	}
	switch v.Status {
	case Unspecified:
		st.out.Labels["unspecified"]++
		return false, ""
	case Discard:
		st.out.Labels["discarded"]++
		return false, ""
	case Violates:
		if id, ok := knownMatch(v.Sig); ok {
			st.out.KnownHits[id]++
			return false, ""
		}
		if collectMode {
			// development aid only (never set by registered commands): list every
			// distinct violation signature instead of stopping at the first
			k := "VIOL " + v.Sig
			if v.Sig == "" {
				k = "VIOL (nosig) " + sub
			}
			if st.out.Labels[k] < 40 {
				st.out.Notes = append(st.out.Notes, k+" :: "+v.Msg)
			}
			st.out.Labels[k]++
			return false, ""
		}
		dir := filepath.Join(VerifDir, "replays", Property)
		_ = os.MkdirAll(dir, 0o755)
		p := filepath.Join(dir, fmt.Sprintf("viol-%s-s%d-%d.json", sub, Seed, Shard))
		b, _ := json.MarshalIndent(map[string]interface{}{"property": Property, "sub": sub, "case": c, "msg": v.Msg, "sig": v.Sig}, "", " ")
		_ = os.WriteFile(p, b, 0o644)
		st.viol[sub] = violationRec{Sub: sub, Replay: p, Msg: v.Msg}
		return true, p
	}
	if v.NonTrivial {
		key := v.Key
		if key == "" {
			b, _ := json.Marshal(c)
			key = string(b)
		}
		h := hash64(sub + "\x00" + key)
		if _, seen := st.hashes[h]; !seen {
			st.hashes[h] = struct{}{}
			// samples: first 3 per sub + reservoir up to 12 overall
			st.nsamples++
			if len(st.out.Samples) < 12 {
				st.out.Samples = append(st.out.Samples, map[string]interface{}{"sub": sub, "case": c, "labels": v.Labels})
			} else {
				st.rsv = st.rsv*6364136223846793005 + 1442695040888963407
				j := int((st.rsv >> 33) % uint64(st.nsamples))
				if j < 8 {
					st.out.Samples[4+j] = map[string]interface{}{"sub": sub, "case": c, "labels": v.Labels}
				}
			}
		}
	}
	return false, ""
}

// Tally records one more evaluation that belongs to the case being judged (a property whose case
// fans out into many executions, e.g. one per injected fault) and, when key is not empty, one more
// distinct non-trivial element.
func Tally(sub, key string, labels ...string) {
	st.mu.Lock()
	defer st.mu.Unlock()
	st.out.Evaluations++
	st.out.SubCounts[sub]++
	for _, l := range labels {
		st.out.Labels[l]++
	}
	if key != "" {
		st.hashes[hash64(sub+"\x00"+key)] = struct{}{}
	}
}

// Sub is one generated sub-check of a property.
type Sub struct {
	Name     string
	Quick    int // cases per shard, quick tier
	Thorough int // cases per shard, thorough tier
	run      func(t *rapid.T)
	replay   func(raw json.RawMessage) (Verdict, interface{}, error)
}

// NewSub builds a Sub from a typed generator and checker.
func NewSub[C any](name string, quick, thorough int, gen func(*rapid.T) C, check func(C) Verdict) Sub {
	s := Sub{Name: name, Quick: quick, Thorough: thorough}
	s.run = func(t *rapid.T) {
		c := gen(t)
		if TraceCurrent {
			if b, err := json.Marshal(map[string]interface{}{"property": Property, "sub": name, "case": c}); err == nil {
				_ = os.WriteFile(filepath.Join(WorkDir(), "cur.json"), b, 0o644)
			}
		}
		t0 := time.Now()
		v := safeCheck(check, c)
		if d := time.Since(t0); d > 5*time.Second {
			// a case this slow is worth knowing about (it is the first suspect when a shard runs out of memory or time)
			if b, err := json.Marshal(map[string]interface{}{"property": Property, "sub": name, "case": c, "seconds": d.Seconds()}); err == nil {
				slowCases++
				_ = os.WriteFile(filepath.Join(WorkDir(), fmt.Sprintf("slowcase-%d.json", slowCases)), b, 0o644)
			}
		}
		if fail, p := record(name, c, v); fail {
			if v.NoShrink {
				fmt.Printf("VIOLATES %s/%s (not shrunk): %s\nreplay=%s\n", Property, name, v.Msg, p)
				flush()
				os.Exit(3)
			}
			t.Fatalf("VIOLATES %s/%s: %s\nreplay=%s", Property, name, v.Msg, p)
		}
	}
	s.replay = func(raw json.RawMessage) (Verdict, interface{}, error) {
		var c C
		if err := json.Unmarshal(raw, &c); err != nil {
			return Verdict{}, nil, err
		}
		return safeCheck(check, c), c, nil
	}
	return s
}

func safeCheck[C any](check func(C) Verdict, c C) (v Verdict) {
	defer func() {
		if r := recover(); r != nil {
			// a panic in harness code is a harness bug: make it loud but
			// distinguishable (the driver maps it to exit 2).
			panic(fmt.Sprintf("HARNESS-PANIC: %v", r))
		}
	}()
	return check(c)
}

type replayFile struct {
	Property string          `json:"property"`
	Sub      string          `json:"sub"`
	Case     json.RawMessage `json:"case"`
	Msg      string          `json:"msg"`
	Sig      string          `json:"sig"`
}

// RunProperty is the body of TestProp in every property package.
func RunProperty(t *testing.T, subs ...Sub) {
	byName := map[string]Sub{}
	for _, s := range subs {
		byName[s.Name] = s
	}
	// replay mode
	if ReplayPath != "" {
		b, err := os.ReadFile(ReplayPath)
		if err != nil {
			t.Fatalf("replay: %v", err)
		}
		var rf replayFile
		if err := json.Unmarshal(b, &rf); err != nil {
			t.Fatalf("replay: %v", err)
		}
		s, ok := byName[rf.Sub]
		if !ok {
			t.Fatalf("replay: unknown sub %q", rf.Sub)
		}
		v, _, err := s.replay(rf.Case)
		if err != nil {
			t.Fatalf("replay: %v", err)
		}
		switch v.Status {
		case Violates:
			if id, ok := knownMatch(v.Sig); ok {
				fmt.Printf("REPLAY known finding %s: %s\n", id, v.Msg)
				return
			}
			fmt.Printf("REPLAY-VIOLATES %s\n", v.Msg)
			fmt.Printf("VIOLATION property=%s replay=%s\n", Property, ReplayPath)
			t.Fail()
		case Holds:
			fmt.Printf("REPLAY holds\n")
		default:
			fmt.Printf("REPLAY not judged (status %d)\n", v.Status)
		}
		return
	}

	// corpus (committed regression inputs + witnesses of known findings): shard 0 only
	if Shard == 0 {
		replayCorpus(t, byName)
	}
	if t.Failed() {
		return
	}
	only := os.Getenv("VERIF_SUB")
	for _, s := range subs {
		if only != "" && only != s.Name {
			continue
		}
		n := s.Quick
		if Tier == "thorough" {
			n = s.Thorough
		}
		n = int(float64(n) * Scale)
		if n <= 0 {
			continue
		}
		st.mu.Lock()
		st.out.Requested[s.Name] = n
		st.mu.Unlock()
		_ = flag.Set("rapid.checks", strconv.Itoa(n))
		_ = flag.Set("rapid.seed", strconv.FormatUint(mix(Seed, Property+"/"+s.Name, Shard), 10))
		_ = flag.Set("rapid.nofailfile", "true")
		sub := s
		t.Run(s.Name, func(t *testing.T) { rapid.Check(t, sub.run) })
		flush()
	}
	st.mu.Lock()
	st.out.Completed = true
	st.mu.Unlock()
}

func replayCorpus(t *testing.T, byName map[string]Sub) {
	dir := filepath.Join(VerifDir, "corpus", Property)
	ents, _ := os.ReadDir(dir)
	witnessOf := map[string]string{} // file -> finding id
	for _, k := range known {
		if k.Property == Property && k.Status == "open" && k.Witness != "" {
			witnessOf[filepath.Base(k.Witness)] = k.ID
		}
	}
	reproduced := map[string]bool{}
	for _, e := range ents {
		if !strings.HasSuffix(e.Name(), ".json") {
			continue
		}
		p := filepath.Join(dir, e.Name())
		b, err := os.ReadFile(p)
		if err != nil {
			continue
		}
		var rf replayFile
		if err := json.Unmarshal(b, &rf); err != nil {
			t.Fatalf("corpus %s: %v", p, err)
		}
		s, ok := byName[rf.Sub]
		if !ok {
			Note("corpus %s: unknown sub %s", e.Name(), rf.Sub)
			continue
		}
		_ = os.WriteFile(filepath.Join(WorkDir(), "cur.json"), b, 0o644)
		v, c, err := s.replay(rf.Case)
		if err != nil {
			t.Fatalf("corpus %s: %v", p, err)
		}
		v.Labels = append(v.Labels, "corpus")
		if v.Status == Violates {
			if id, ok := knownMatch(v.Sig); ok {
				reproduced[id] = true
			}
		}
		if fail, _ := record(rf.Sub, c, v); fail {
			// point the replay at the committed corpus file
			st.mu.Lock()
			st.viol[rf.Sub] = violationRec{Sub: rf.Sub, Replay: p, Msg: v.Msg}
			st.mu.Unlock()
			t.Errorf("VIOLATES %s (corpus %s): %s", Property, e.Name(), v.Msg)
		}
	}
	st.mu.Lock()
	for _, k := range known {
		if k.Property != Property || k.Status != "open" {
			continue
		}
		if reproduced[k.ID] {
			st.out.KnownRepro = append(st.out.KnownRepro, k.ID)
		} else {
			st.out.KnownStale = append(st.out.KnownStale, k.ID)
		}
	}
	st.mu.Unlock()
}

// ---------------------------------------------------------------------------
// known findings

type Known struct {
	ID        string   `json:"id"`
	Property  string   `json:"property"`
	Status    string   `json:"status"` // open | fixed
	What      string   `json:"what"`
	Witness   string   `json:"witness,omitempty"`
	Signature []string `json:"signatures,omitempty"`
	Commit    string   `json:"commit,omitempty"`
}

var known []Known

func loadKnown() {
	b, err := os.ReadFile(filepath.Join(VerifDir, "known_findings.json"))
	if err != nil {
		return
	}
	var f struct {
		Findings []Known `json:"findings"`
	}
	if err := json.Unmarshal(b, &f); err != nil {
		panic("known_findings.json: " + err.Error())
	}
	known = f.Findings
}

func knownMatch(sig string) (string, bool) {
	if sig == "" {
		return "", false
	}
	for _, k := range known {
		if k.Property != Property || k.Status != "open" {
			continue
		}
		for _, s := range k.Signature {
			if s == sig {
				return k.ID, true
			}
		}
	}
	return "", false
}

// IsKnown lets a check ask whether a signature is a listed open finding
// (used to swallow matched crash sites inside fuzz targets).
func IsKnown(sig string) bool { _, ok := knownMatch(sig); return ok }

// ShortHash is used for file names.
func ShortHash(s string) string {
	h := sha256.Sum256([]byte(s))
	return hex.EncodeToString(h[:6])
}

var _ = binary.LittleEndian
