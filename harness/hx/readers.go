package hx

import (
	"bytes"
	"fmt"
	"io"
	"math"
	"math/big"
	"strconv"
	"strings"

	yaml "gopkg.in/yaml.v3"
	"verif/model"
)

// AllowComplexKeys makes NodeToModel represent a non-scalar key by a synthetic string.
var AllowComplexKeys = false

// YAMLDocs reads a YAML stream with yaml.v3's Node API (an implementation
// detail shared with yq, so it is used only where the same reader is applied to
// both sides of a comparison, or together with an independent reader).
func YAMLNodes(text string) ([]*yaml.Node, error) {
	dec := yaml.NewDecoder(bytes.NewReader([]byte(text)))
	var out []*yaml.Node
	for {
		var n yaml.Node
		err := dec.Decode(&n)
		if err == io.EOF {
			return out, nil
		}
		if err != nil {
			return out, err
		}
		out = append(out, &n)
	}
}

// NodeToModel converts a yaml.v3 node to a model value, resolving aliases and
// merge keys are left as ordinary "<<" entries (resolve=false) .
func NodeToModel(n *yaml.Node, depth int) (*model.Value, error) {
	if depth > 200 {
		return nil, fmt.Errorf("too deep (cyclic alias?)")
	}
	switch n.Kind {
	case yaml.DocumentNode:
		if len(n.Content) == 0 {
			return model.NewNull(), nil
		}
		return NodeToModel(n.Content[0], depth+1)
	case yaml.AliasNode:
		return NodeToModel(n.Alias, depth+1)
	case yaml.SequenceNode:
		s := model.NewSeq()
		for _, c := range n.Content {
			v, err := NodeToModel(c, depth+1)
			if err != nil {
				return nil, err
			}
			s.Elem = append(s.Elem, v)
		}
		return s, nil
	case yaml.MappingNode:
		m := model.NewMap()
		for i := 0; i+1 < len(n.Content); i += 2 {
			k := n.Content[i]
			for k.Kind == yaml.AliasNode {
				k = k.Alias
			}
			kname := k.Value
			if k.Kind != yaml.ScalarNode {
				if !AllowComplexKeys {
					return nil, fmt.Errorf("non-scalar key")
				}
				kv, err := NodeToModel(k, depth+1)
				if err != nil {
					return nil, err
				}
				kname = "\x01complex:" + kv.JSON()
			}
			v, err := NodeToModel(n.Content[i+1], depth+1)
			if err != nil {
				return nil, err
			}
			m.Keys = append(m.Keys, kname)
			m.Vals = append(m.Vals, v)
		}
		return m, nil
	case yaml.ScalarNode:
		return ScalarToModel(n.ShortTag(), n.Value)
	}
	return nil, fmt.Errorf("unknown node kind %v", n.Kind)
}

// ScalarToModel interprets a resolved YAML scalar.
func ScalarToModel(tag, val string) (*model.Value, error) {
	switch tag {
	case "!!null":
		return model.NewNull(), nil
	case "!!bool":
		switch strings.ToLower(val) {
		case "true":
			return model.NewBool(true), nil
		case "false":
			return model.NewBool(false), nil
		}
		return nil, fmt.Errorf("bad bool %q", val)
	case "!!int":
		s := strings.ReplaceAll(val, "_", "")
		neg := strings.HasPrefix(s, "-")
		u := strings.TrimPrefix(strings.TrimPrefix(s, "-"), "+")
		base := 10
		switch {
		case strings.HasPrefix(u, "0x") || strings.HasPrefix(u, "0X"):
			base, u = 16, u[2:]
		case strings.HasPrefix(u, "0o"):
			base, u = 8, u[2:]
		case strings.HasPrefix(u, "0b"):
			base, u = 2, u[2:]
		}
		i, ok := new(big.Int).SetString(u, base)
		if !ok {
			return nil, fmt.Errorf("bad int %q", val)
		}
		if neg {
			i.Neg(i)
		}
		return model.NewBig(i), nil
	case "!!float":
		s := strings.ReplaceAll(val, "_", "")
		switch strings.ToLower(s) {
		case ".inf", "+.inf":
			return model.NewFloat(math.Inf(1)), nil
		case "-.inf":
			return model.NewFloat(math.Inf(-1)), nil
		case ".nan":
			return model.NewFloat(math.NaN()), nil
		}
		f, err := strconv.ParseFloat(s, 64)
		if err != nil {
			return nil, err
		}
		return model.NewFloat(f), nil
	}
	return model.NewStr(val), nil
}

// YAMLToModel reads a stream into model values (aliases resolved, "<<" kept as a key).
func YAMLToModel(text string) ([]*model.Value, error) {
	nodes, err := YAMLNodes(text)
	if err != nil {
		return nil, err
	}
	var out []*model.Value
	for _, n := range nodes {
		v, err := NodeToModel(n, 0)
		if err != nil {
			return nil, err
		}
		out = append(out, v)
	}
	return out, nil
}
