package hx

import (
	"bytes"
	"fmt"
	"io"
	"math"
	"math/big"
	"sort"
	"time"

	goccy "github.com/goccy/go-yaml"
	yaml2 "gopkg.in/yaml.v2"
	"verif/model"
)

// Two YAML readers that share no code with yq's yaml.v3 based decoder.

func anyToModel(x interface{}) (*model.Value, error) {
	switch v := x.(type) {
	case nil:
		return model.NewNull(), nil
	case bool:
		return model.NewBool(v), nil
	case int:
		return model.NewInt(int64(v)), nil
	case int64:
		return model.NewInt(v), nil
	case uint64:
		return model.NewBig(new(big.Int).SetUint64(v)), nil
	case uint:
		return model.NewBig(new(big.Int).SetUint64(uint64(v))), nil
	case float64:
		return model.NewFloat(v), nil
	case float32:
		return model.NewFloat(float64(v)), nil
	case string:
		return model.NewStr(v), nil
	case time.Time:
		return nil, fmt.Errorf("timestamp")
	case []interface{}:
		s := model.NewSeq()
		for _, e := range v {
			m, err := anyToModel(e)
			if err != nil {
				return nil, err
			}
			s.Elem = append(s.Elem, m)
		}
		return s, nil
	case map[interface{}]interface{}:
		m := model.NewMap()
		var ks []string
		vals := map[string]interface{}{}
		for k, e := range v {
			s := fmt.Sprint(k)
			if k == nil {
				s = "null"
			}
			ks = append(ks, s)
			vals[s] = e
		}
		sort.Strings(ks)
		for _, k := range ks {
			mv, err := anyToModel(vals[k])
			if err != nil {
				return nil, err
			}
			m.Keys = append(m.Keys, k)
			m.Vals = append(m.Vals, mv)
		}
		return m, nil
	case map[string]interface{}:
		m := model.NewMap()
		var ks []string
		for k := range v {
			ks = append(ks, k)
		}
		sort.Strings(ks)
		for _, k := range ks {
			mv, err := anyToModel(v[k])
			if err != nil {
				return nil, err
			}
			m.Keys = append(m.Keys, k)
			m.Vals = append(m.Vals, mv)
		}
		return m, nil
	case goccy.MapSlice:
		m := model.NewMap()
		for _, it := range v {
			mv, err := anyToModel(it.Value)
			if err != nil {
				return nil, err
			}
			k := fmt.Sprint(it.Key)
			if it.Key == nil {
				k = "null"
			}
			m.Keys = append(m.Keys, k)
			m.Vals = append(m.Vals, mv)
		}
		return m, nil
	case yaml2.MapSlice:
		m := model.NewMap()
		for _, it := range v {
			mv, err := anyToModel(it.Value)
			if err != nil {
				return nil, err
			}
			m.Keys = append(m.Keys, fmt.Sprint(it.Key))
			m.Vals = append(m.Vals, mv)
		}
		return m, nil
	}
	return nil, fmt.Errorf("unsupported value %T", x)
}

// ReadYAMLv2 reads a stream with gopkg.in/yaml.v2 (YAML 1.1; map order is lost, keys come back sorted).
func ReadYAMLv2(text string) (out []*model.Value, err error) {
	defer func() {
		if r := recover(); r != nil {
			err = fmt.Errorf("yaml.v2 panic: %v", r)
		}
	}()
	dec := yaml2.NewDecoder(bytes.NewReader([]byte(text)))
	for {
		var v interface{}
		e := dec.Decode(&v)
		if e == io.EOF {
			return out, nil
		}
		if e != nil {
			return out, e
		}
		m, e := anyToModel(v)
		if e != nil {
			return out, e
		}
		out = append(out, m)
	}
}

// ReadYAMLGoccy reads a stream with github.com/goccy/go-yaml keeping key order.
func ReadYAMLGoccy(text string) (out []*model.Value, err error) {
	defer func() {
		if r := recover(); r != nil {
			err = fmt.Errorf("goccy panic: %v", r)
		}
	}()
	dec := goccy.NewDecoder(bytes.NewReader([]byte(text)), goccy.UseOrderedMap())
	for {
		var v interface{}
		e := dec.Decode(&v)
		if e == io.EOF {
			return out, nil
		}
		if e != nil {
			return out, e
		}
		m, e := anyToModel(v)
		if e != nil {
			return out, e
		}
		out = append(out, m)
	}
}

// SortKeys returns a copy with map keys sorted (to compare with the yaml.v2 reader).
func SortKeys(v *model.Value) *model.Value {
	switch v.K {
	case model.Seq:
		o := model.NewSeq()
		for _, e := range v.Elem {
			o.Elem = append(o.Elem, SortKeys(e))
		}
		return o
	case model.Map:
		ks := append([]string{}, v.Keys...)
		sort.Strings(ks)
		o := model.NewMap()
		for _, k := range ks {
			x, _ := v.Get(k)
			o.Keys = append(o.Keys, k)
			o.Vals = append(o.Vals, SortKeys(x))
		}
		return o
	}
	return v
}

var _ = math.Inf
