// Package hx holds what every property package shares: running yq in-process
// or as a binary, evidence collection, known-findings matching, replay files.
package hx

import (
	"bufio"
	"bytes"
	"container/list"
	"fmt"
	"os"
	"path/filepath"
	"regexp"
	"runtime/debug"
	"strings"
	"sync"
	"time"

	"github.com/mikefarah/yq/v4/pkg/yqlib"
	logging "gopkg.in/op/go-logging.v1"
)

var initOnce sync.Once

// Init silences the library logger and creates the expression parser.
func Init() {
	initOnce.Do(func() {
		logging.SetLevel(logging.ERROR, "yq-lib")
		backend := logging.AddModuleLevel(logging.NewLogBackend(os.Stderr, "", 0))
		backend.SetLevel(logging.CRITICAL, "")
		logging.SetBackend(backend)
		yqlib.InitExpressionParser()
	})
}

// Opts mirrors the command line flags the cmd layer turns into preferences.
type Opts struct {
	In        string `json:"in,omitempty"`  // input format name, default yaml
	Out       string `json:"out,omitempty"` // output format name, default yaml
	Indent    int    `json:"indent,omitempty"`
	IndentSet bool   `json:"indent_set,omitempty"` // Indent 0 is meaningful
	Unwrap    *bool  `json:"unwrap,omitempty"`
	NoDocSep  bool   `json:"no_doc_sep,omitempty"`
	EvalAll   bool   `json:"eval_all,omitempty"`
	NullIn    bool   `json:"null_in,omitempty"`
	NulSep    bool   `json:"nul_sep,omitempty"` // -0 / --nul-output
	// SplitExp is the --split-exp name expression: results are written to the files it names instead of Outcome.Out
	SplitExp string `json:"split_exp,omitempty"`
	// Tweak sets format preferences (the --csv-*, --xml-*, --lua-*, --properties-* flags) after the defaults are in place.
	Tweak func() `json:"-"`
}

// Outcome is what happened to one yq evaluation.
type Outcome struct {
	Out       string `json:"out"`
	Err       string `json:"err,omitempty"`
	Panic     string `json:"panic,omitempty"`
	PanicSite string `json:"panic_site,omitempty"`
	Timeout   bool   `json:"timeout,omitempty"`
}

func (o Outcome) OK() bool      { return o.Err == "" && o.Panic == "" && !o.Timeout }
func (o Outcome) Failed() bool  { return o.Err != "" }
func (o Outcome) Crashed() bool { return o.Panic != "" }

// ResetPrefs puts every package-level preference back to what a fresh yq
// process (stdout not a tty) would have.
func ResetPrefs() {
	yqlib.ConfiguredYamlPreferences = yqlib.NewDefaultYamlPreferences()
	yqlib.ConfiguredJSONPreferences = yqlib.NewDefaultJsonPreferences()
	yqlib.ConfiguredJSONPreferences.ColorsEnabled = false
	yqlib.ConfiguredJSONPreferences.UnwrapScalar = false
	yqlib.ConfiguredXMLPreferences = yqlib.NewDefaultXmlPreferences()
	yqlib.ConfiguredCsvPreferences = yqlib.NewDefaultCsvPreferences()
	yqlib.ConfiguredTsvPreferences = yqlib.NewDefaultTsvPreferences()
	yqlib.ConfiguredPropertiesPreferences = yqlib.NewDefaultPropertiesPreferences()
	yqlib.ConfiguredLuaPreferences = yqlib.NewDefaultLuaPreferences()
	yqlib.StringInterpolationEnabled = true
}

// ApplyOpts does what cmd.configureEncoder / configureDecoder do.
func ApplyOpts(o Opts) (yqlib.Encoder, yqlib.Decoder, error) {
	ResetPrefs()
	in, out := o.In, o.Out
	if in == "" {
		in = "yaml"
	}
	if out == "" {
		out = "yaml"
	}
	inF, err := yqlib.FormatFromString(in)
	if err != nil {
		return nil, nil, err
	}
	outF, err := yqlib.FormatFromString(out)
	if err != nil {
		return nil, nil, err
	}
	indent := 2
	if o.IndentSet || o.Indent != 0 {
		indent = o.Indent
	}
	unwrap := outF == yqlib.YamlFormat || outF == yqlib.PropertiesFormat
	if o.Unwrap != nil {
		unwrap = *o.Unwrap
	}
	yqlib.ConfiguredXMLPreferences.Indent = indent
	yqlib.ConfiguredYamlPreferences.Indent = indent
	yqlib.ConfiguredJSONPreferences.Indent = indent
	yqlib.ConfiguredYamlPreferences.UnwrapScalar = unwrap
	yqlib.ConfiguredPropertiesPreferences.UnwrapScalar = unwrap
	yqlib.ConfiguredJSONPreferences.UnwrapScalar = unwrap
	yqlib.ConfiguredYamlPreferences.PrintDocSeparators = !o.NoDocSep
	yqlib.ConfiguredYamlPreferences.EvaluateTogether = o.EvalAll
	if o.Tweak != nil {
		o.Tweak()
	}
	if outF.EncoderFactory == nil {
		return nil, nil, fmt.Errorf("no support for %s output format", out)
	}
	enc := outF.EncoderFactory()
	if enc == nil {
		return nil, nil, fmt.Errorf("no support for %s output format", out)
	}
	var dec yqlib.Decoder
	if !o.NullIn {
		// On the unchanged tree the cmd layer calls a nil DecoderFactory for
		// formats without a decoder; that is a C11/C19 matter judged through
		// the binary. In-process we report it as an error.
		if inF.DecoderFactory == nil {
			return nil, nil, fmt.Errorf("no support for %s input format", in)
		}
		dec = inF.DecoderFactory()
		if dec == nil {
			return nil, nil, fmt.Errorf("no support for %s input format", in)
		}
	}
	return enc, dec, nil
}

var frameRe = regexp.MustCompile(`(?m)^(github\.com/mikefarah/yq/v4/[^\s(]+(?:\([^)]*\))?[^\s(]*)\(`)

// PanicSite extracts the innermost yq frame (function name, no line number)
// and the class of the runtime error.
func PanicSite(val interface{}, stack []byte) string {
	msg := fmt.Sprint(val)
	class := "panic"
	switch {
	case strings.Contains(msg, "index out of range"):
		class = "index out of range"
	case strings.Contains(msg, "slice bounds out of range"):
		class = "slice bounds"
	case strings.Contains(msg, "nil pointer"):
		class = "nil pointer"
	case strings.Contains(msg, "interface conversion"):
		class = "interface conversion"
	case strings.Contains(msg, "nil map"):
		class = "nil map"
	case strings.Contains(msg, "makeslice"):
		class = "makeslice"
	case strings.Contains(msg, "divide by zero"):
		class = "divide by zero"
	}
	fn := "?"
	// skip frames until after the runtime panic frames
	s := string(stack)
	if i := strings.LastIndex(s, "\npanic("); i >= 0 {
		s = s[i:]
	}
	for _, m := range frameRe.FindAllStringSubmatch(s, -1) {
		f := m[1]
		f = strings.TrimPrefix(f, "github.com/mikefarah/yq/v4/")
		fn = f
		break
	}
	return fn + ": " + class
}

type job struct {
	f    func() Outcome
	done chan Outcome
}

// Guard runs f with recover and a watchdog.
func Guard(limit time.Duration, f func() Outcome) Outcome {
	done := make(chan Outcome, 1)
	go func() {
		defer func() {
			if r := recover(); r != nil {
				st := debug.Stack()
				done <- Outcome{Panic: fmt.Sprint(r), PanicSite: PanicSite(r, st)}
			}
		}()
		done <- f()
	}()
	select {
	case o := <-done:
		return o
	case <-time.After(limit):
		// keep the case that ran into the watchdog: its evaluation goes on in the background and, when it
		// also eats memory, is what kills the shard later (the driver names it then)
		if b, err := os.ReadFile(filepath.Join(WorkDir(), "cur.json")); err == nil {
			slowSeq++
			_ = os.WriteFile(filepath.Join(WorkDir(), fmt.Sprintf("slow-%d.json", slowSeq)), b, 0o644)
		}
		return Outcome{Timeout: true}
	}
}

var slowSeq int

// DefaultLimit is the in-process watchdog.
var DefaultLimit = 20 * time.Second

// Run evaluates expr over input exactly the way the command would (stream
// evaluator unless EvalAll), in-process, with recover and a watchdog.
func Run(expr, input string, o Opts) Outcome {
	Init()
	return Guard(DefaultLimit, func() Outcome { return runRaw(expr, input, o) })
}

func runRaw(expr, input string, o Opts) Outcome {
	enc, dec, err := ApplyOpts(o)
	if err != nil {
		return Outcome{Err: err.Error()}
	}
	out := new(bytes.Buffer)
	var pw yqlib.PrinterWriter = yqlib.NewSinglePrinterWriter(out)
	if o.SplitExp != "" {
		nameExp, perr := yqlib.ExpressionParser.ParseExpression(o.SplitExp)
		if perr != nil {
			return Outcome{Err: "parse: " + perr.Error()}
		}
		outF, _ := yqlib.FormatFromString(map[bool]string{true: "yaml", false: o.Out}[o.Out == ""])
		pw = yqlib.NewMultiPrinterWriter(nameExp, outF)
	}
	printer := yqlib.NewPrinter(enc, pw)
	if o.NulSep {
		printer.SetNulSepOutput(true)
	}
	if o.NullIn {
		err = yqlib.NewStreamEvaluator().EvaluateNew(expr, printer)
		return mk(out, err)
	}
	if o.EvalAll {
		var docs *list.List
		docs, err = yqlib.ReadDocuments(bufio.NewReader(strings.NewReader(input)), dec)
		if err != nil {
			return mk(out, err)
		}
		if docs.Len() == 0 {
			// cmd: AllAtOnceEvaluator.EvaluateFiles evaluates a null node
			return Outcome{Out: "", Err: ""}
		}
		var res *list.List
		res, err = yqlib.NewAllAtOnceEvaluator().EvaluateCandidateNodes(expr, docs)
		if err != nil {
			return mk(out, err)
		}
		err = printer.PrintResults(res)
		return mk(out, err)
	}
	node, err := yqlib.ExpressionParser.ParseExpression(expr)
	if err != nil {
		return Outcome{Err: "parse: " + err.Error()}
	}
	_, err = yqlib.NewStreamEvaluator().Evaluate("", bufio.NewReader(strings.NewReader(input)), node, printer, dec)
	return mk(out, err)
}

func mk(out *bytes.Buffer, err error) Outcome {
	o := Outcome{Out: out.String()}
	if err != nil {
		o.Err = err.Error()
		if o.Err == "" {
			o.Err = "error"
		}
	}
	return o
}

// Parse parses an expression with recover.
func Parse(expr string) (node *yqlib.ExpressionNode, out Outcome) {
	Init()
	out = Guard(DefaultLimit, func() Outcome {
		n, err := yqlib.ExpressionParser.ParseExpression(expr)
		if err != nil {
			return Outcome{Err: err.Error()}
		}
		node = n
		return Outcome{}
	})
	return
}

// JSONResults evaluates expr on a JSON/YAML input and returns one compact
// JSON text per result ("yq -o=json -I0").
func JSONResults(expr, input string, inFmt string) ([]string, Outcome) {
	return JSONResultsAll(expr, input, inFmt, false)
}

// JSONResultsAll is JSONResults with the documents evaluated together (eval-all) when all is set
func JSONResultsAll(expr, input string, inFmt string, all bool) ([]string, Outcome) {
	o := Run(expr, input, Opts{In: inFmt, Out: "json", IndentSet: true, Indent: 0, EvalAll: all})
	if !o.OK() {
		return nil, o
	}
	var res []string
	for _, l := range strings.Split(o.Out, "\n") {
		if l != "" {
			res = append(res, l)
		}
	}
	return res, o
}

func BoolP(b bool) *bool { return &b }
