package hx

import (
	"bytes"
	"io"

	yaml "gopkg.in/yaml.v3"
)

// YAMLCyclic reports whether a YAML text contains an alias that refers to a
// node enclosing it (a cyclic graph, e.g. `a: &a [*a]`).
func YAMLCyclic(input string) (cyclic bool) {
	defer func() {
		if recover() != nil {
			cyclic = false
		}
	}()
	dec := yaml.NewDecoder(bytes.NewReader([]byte(input)))
	for {
		var n yaml.Node
		err := dec.Decode(&n)
		if err == io.EOF {
			return false
		}
		if err != nil {
			return false
		}
		on := map[*yaml.Node]bool{}
		done := map[*yaml.Node]bool{}
		var walk func(x *yaml.Node) bool
		walk = func(x *yaml.Node) bool {
			if x == nil || done[x] {
				return false
			}
			if on[x] {
				return true
			}
			on[x] = true
			if x.Kind == yaml.AliasNode && walk(x.Alias) {
				return true
			}
			for _, c := range x.Content {
				if walk(c) {
					return true
				}
			}
			on[x] = false
			done[x] = true
			return false
		}
		if walk(&n) {
			return true
		}
	}
}
