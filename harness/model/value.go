// Package model is the harness's own JSON-like value model (ordered maps,
// exact integers, node identity through pointers). It never imports yqlib.
package model

import (
	"bytes"
	"encoding/json"
	"fmt"
	"math"
	"math/big"
	"strconv"
	"strings"
	"unicode/utf8"
)

type Kind int

const (
	Null Kind = iota
	Bool
	Int
	Float
	Str
	Seq
	Map
)

func (k Kind) String() string {
	return [...]string{"null", "bool", "int", "float", "str", "seq", "map"}[k]
}

// Value is one node. Pointers give identity.
type Value struct {
	K    Kind
	B    bool
	I    *big.Int
	F    float64
	S    string
	Elem []*Value // Seq
	Keys []string // Map
	Vals []*Value // Map

	// bookkeeping used by reference models that need "where is this node"
	Parent *Value
	PKey   string // key in parent map
	PIdx   int    // index in parent seq
}

func NewNull() *Value           { return &Value{K: Null} }
func NewBool(b bool) *Value     { return &Value{K: Bool, B: b} }
func NewInt(i int64) *Value     { return &Value{K: Int, I: big.NewInt(i)} }
func NewBig(i *big.Int) *Value  { return &Value{K: Int, I: i} }
func NewFloat(f float64) *Value { return &Value{K: Float, F: f} }
func NewStr(s string) *Value    { return &Value{K: Str, S: s} }
func NewSeq(e ...*Value) *Value { return &Value{K: Seq, Elem: e} }
func NewMap() *Value            { return &Value{K: Map} }

func (v *Value) Set(k string, x *Value) *Value {
	for i, kk := range v.Keys {
		if kk == k {
			v.Vals[i] = x
			return v
		}
	}
	v.Keys = append(v.Keys, k)
	v.Vals = append(v.Vals, x)
	return v
}

func (v *Value) Get(k string) (*Value, bool) {
	for i, kk := range v.Keys {
		if kk == k {
			return v.Vals[i], true
		}
	}
	return nil, false
}

func (v *Value) Del(k string) {
	for i, kk := range v.Keys {
		if kk == k {
			v.Keys = append(v.Keys[:i:i], v.Keys[i+1:]...)
			v.Vals = append(v.Vals[:i:i], v.Vals[i+1:]...)
			return
		}
	}
}

func (v *Value) IsNumber() bool { return v.K == Int || v.K == Float }
func (v *Value) IsScalar() bool { return v.K != Seq && v.K != Map }

// Num returns the numeric value as float64 (inexact for big ints).
func (v *Value) Num() float64 {
	if v.K == Int {
		f, _ := new(big.Float).SetInt(v.I).Float64()
		return f
	}
	return v.F
}

// Rat returns the exact rational value of a number (nil for nan/inf).
func (v *Value) Rat() *big.Rat {
	if v.K == Int {
		return new(big.Rat).SetInt(v.I)
	}
	if math.IsNaN(v.F) || math.IsInf(v.F, 0) {
		return nil
	}
	return new(big.Rat).SetFloat64(v.F)
}

// Copy is a deep copy (fresh identities, no parent links).
func (v *Value) Copy() *Value {
	if v == nil {
		return nil
	}
	c := &Value{K: v.K, B: v.B, F: v.F, S: v.S}
	if v.I != nil {
		c.I = new(big.Int).Set(v.I)
	}
	if v.K == Seq {
		c.Elem = make([]*Value, len(v.Elem))
		for i, e := range v.Elem {
			c.Elem[i] = e.Copy()
		}
	}
	if v.K == Map {
		c.Keys = append([]string(nil), v.Keys...)
		c.Vals = make([]*Value, len(v.Vals))
		for i, e := range v.Vals {
			c.Vals[i] = e.Copy()
		}
	}
	return c
}

// Link sets Parent/PKey/PIdx for the whole tree.
func (v *Value) Link() *Value {
	switch v.K {
	case Seq:
		for i, e := range v.Elem {
			e.Parent, e.PIdx, e.PKey = v, i, ""
			e.Link()
		}
	case Map:
		for i, e := range v.Vals {
			e.Parent, e.PKey, e.PIdx = v, v.Keys[i], -1
			e.Link()
		}
	}
	return v
}

// Equal is structural equality; numbers compare by exact value (1 == 1.0),
// maps compare with key order.
func Equal(a, b *Value) bool { return equal(a, b, true, 0) }

// EqualUnordered ignores map key order.
func EqualUnordered(a, b *Value) bool { return equal(a, b, false, 0) }

// EqualTol is Equal with a relative tolerance for floats.
func EqualTol(a, b *Value, tol float64) bool { return equal(a, b, true, tol) }

func numEq(a, b *Value, tol float64) bool {
	ra, rb := a.Rat(), b.Rat()
	if ra == nil || rb == nil {
		if ra == nil && rb == nil {
			return (math.IsNaN(a.F) && math.IsNaN(b.F)) || a.F == b.F
		}
		return false
	}
	if ra.Cmp(rb) == 0 {
		return true
	}
	if tol > 0 {
		fa, fb := a.Num(), b.Num()
		d := math.Abs(fa - fb)
		m := math.Max(math.Abs(fa), math.Abs(fb))
		return d <= tol*m
	}
	return false
}

func equal(a, b *Value, ordered bool, tol float64) bool {
	if a.IsNumber() && b.IsNumber() {
		return numEq(a, b, tol)
	}
	if a.K != b.K {
		return false
	}
	switch a.K {
	case Null:
		return true
	case Bool:
		return a.B == b.B
	case Str:
		return a.S == b.S
	case Seq:
		if len(a.Elem) != len(b.Elem) {
			return false
		}
		for i := range a.Elem {
			if !equal(a.Elem[i], b.Elem[i], ordered, tol) {
				return false
			}
		}
		return true
	case Map:
		if len(a.Keys) != len(b.Keys) {
			return false
		}
		if ordered {
			for i := range a.Keys {
				if a.Keys[i] != b.Keys[i] || !equal(a.Vals[i], b.Vals[i], ordered, tol) {
					return false
				}
			}
			return true
		}
		for i, k := range a.Keys {
			bv, ok := b.Get(k)
			if !ok || !equal(a.Vals[i], bv, ordered, tol) {
				return false
			}
		}
		return true
	}
	return false
}

// ---------------------------------------------------------------------------
// JSON

// ParseJSON parses one JSON text keeping key order and exact integers.
func ParseJSON(s string) (*Value, error) {
	dec := json.NewDecoder(strings.NewReader(s))
	dec.UseNumber()
	v, err := parseTok(dec)
	if err != nil {
		return nil, err
	}
	if _, err := dec.Token(); err == nil {
		return nil, fmt.Errorf("trailing data after JSON value")
	}
	return v, nil
}

// ParseJSONStream parses a stream of JSON texts.
func ParseJSONStream(s string) ([]*Value, error) {
	dec := json.NewDecoder(strings.NewReader(s))
	dec.UseNumber()
	var out []*Value
	for dec.More() {
		v, err := parseTok(dec)
		if err != nil {
			return out, err
		}
		out = append(out, v)
	}
	// dec.More() is false both at EOF and on garbage: make sure it is EOF
	if _, err := dec.Token(); err == nil || err.Error() != "EOF" {
		if err != nil {
			return out, err
		}
		return out, fmt.Errorf("unexpected token after stream")
	}
	return out, nil
}

func parseTok(dec *json.Decoder) (*Value, error) {
	t, err := dec.Token()
	if err != nil {
		return nil, err
	}
	switch x := t.(type) {
	case json.Delim:
		switch x {
		case '[':
			v := NewSeq()
			for dec.More() {
				e, err := parseTok(dec)
				if err != nil {
					return nil, err
				}
				v.Elem = append(v.Elem, e)
			}
			if _, err := dec.Token(); err != nil {
				return nil, err
			}
			return v, nil
		case '{':
			v := NewMap()
			for dec.More() {
				kt, err := dec.Token()
				if err != nil {
					return nil, err
				}
				k, ok := kt.(string)
				if !ok {
					return nil, fmt.Errorf("non-string key")
				}
				e, err := parseTok(dec)
				if err != nil {
					return nil, err
				}
				// duplicate keys: keep both visible by not collapsing (callers that care check)
				v.Keys = append(v.Keys, k)
				v.Vals = append(v.Vals, e)
			}
			if _, err := dec.Token(); err != nil {
				return nil, err
			}
			return v, nil
		}
		return nil, fmt.Errorf("unexpected delimiter %v", x)
	case json.Number:
		return ParseNumber(string(x))
	case string:
		return NewStr(x), nil
	case bool:
		return NewBool(x), nil
	case nil:
		return NewNull(), nil
	}
	return nil, fmt.Errorf("unexpected token %v", t)
}

// ParseNumber classifies a JSON number spelling.
func ParseNumber(s string) (*Value, error) {
	if !strings.ContainsAny(s, ".eE") {
		if i, ok := new(big.Int).SetString(s, 10); ok {
			return NewBig(i), nil
		}
	}
	f, err := strconv.ParseFloat(s, 64)
	if err != nil && !math.IsInf(f, 0) {
		return nil, err
	}
	return NewFloat(f), nil
}

// JSON renders compact JSON (the harness's own emitter).
func (v *Value) JSON() string {
	var b bytes.Buffer
	v.writeJSON(&b)
	return b.String()
}

func (v *Value) writeJSON(b *bytes.Buffer) {
	switch v.K {
	case Null:
		b.WriteString("null")
	case Bool:
		if v.B {
			b.WriteString("true")
		} else {
			b.WriteString("false")
		}
	case Int:
		b.WriteString(v.I.String())
	case Float:
		b.WriteString(FormatFloat(v.F))
	case Str:
		b.WriteString(QuoteJSON(v.S))
	case Seq:
		b.WriteByte('[')
		for i, e := range v.Elem {
			if i > 0 {
				b.WriteByte(',')
			}
			e.writeJSON(b)
		}
		b.WriteByte(']')
	case Map:
		b.WriteByte('{')
		for i, k := range v.Keys {
			if i > 0 {
				b.WriteByte(',')
			}
			b.WriteString(QuoteJSON(k))
			b.WriteByte(':')
			v.Vals[i].writeJSON(b)
		}
		b.WriteByte('}')
	}
}

// FormatFloat renders a float so that it stays a float when re-read.
func FormatFloat(f float64) string {
	s := strconv.FormatFloat(f, 'g', -1, 64)
	if !strings.ContainsAny(s, ".eE") && !math.IsInf(f, 0) && !math.IsNaN(f) {
		s += ".0"
	}
	return s
}

// QuoteJSON is a minimal exact JSON string quoter (no HTML escaping).
func QuoteJSON(s string) string {
	var b strings.Builder
	b.WriteByte('"')
	for i := 0; i < len(s); {
		r, n := utf8.DecodeRuneInString(s[i:])
		switch {
		case r == utf8.RuneError && n == 1:
			b.WriteString(`�`)
		case r == '"':
			b.WriteString(`\"`)
		case r == '\\':
			b.WriteString(`\\`)
		case r == '\n':
			b.WriteString(`\n`)
		case r == '\r':
			b.WriteString(`\r`)
		case r == '\t':
			b.WriteString(`\t`)
		case r < 0x20 || r == 0x7f || r == 0x2028 || r == 0x2029:
			fmt.Fprintf(&b, `\u%04x`, r)
		default:
			b.WriteString(s[i : i+n])
		}
		i += n
	}
	b.WriteByte('"')
	return b.String()
}

// Walk calls f for v and every descendant, parents first.
func (v *Value) Walk(f func(*Value)) {
	f(v)
	for _, e := range v.Elem {
		e.Walk(f)
	}
	for _, e := range v.Vals {
		e.Walk(f)
	}
}

// Depth of nesting.
func (v *Value) Depth() int {
	d := 0
	for _, e := range v.Elem {
		if x := e.Depth() + 1; x > d {
			d = x
		}
	}
	for _, e := range v.Vals {
		if x := e.Depth() + 1; x > d {
			d = x
		}
	}
	return d
}

// Size is the number of nodes.
func (v *Value) Size() int {
	n := 0
	v.Walk(func(*Value) { n++ })
	return n
}

// HasDupKeys reports duplicate map keys anywhere in the tree.
func (v *Value) HasDupKeys() bool {
	dup := false
	v.Walk(func(x *Value) {
		if x.K == Map {
			seen := map[string]bool{}
			for _, k := range x.Keys {
				if seen[k] {
					dup = true
				}
				seen[k] = true
			}
		}
	})
	return dup
}
