// Package ref is the reference interpreter for the core fragment of the yq
// expression language, written from how-it-works.md and
// pkg/yqlib/doc/operators/*.md. It never imports yqlib. Where the documentation
// leaves an outcome open it returns Unspecified, and the clients abstain.
package ref

import (
	"fmt"
	"regexp"
	"math"
	"math/big"
	"sort"
	"strconv"
	"strings"

	"verif/model"
)

type V = model.Value

// E is an expression AST node (JSON-serialisable so that cases can be replayed).
type E struct {
	Op  string   `json:"op"`
	A   []*E     `json:"a,omitempty"`
	S   string   `json:"s,omitempty"`   // key / operator symbol / variable name / string argument
	Lit string   `json:"lit,omitempty"` // literal, as JSON text
	I   *int     `json:"i,omitempty"`
	J   *int     `json:"j,omitempty"`
	KS  []string `json:"ks,omitempty"` // object construction: literal keys
}

var simpleKey = regexp.MustCompile(`^[a-z][a-z0-9]*$`)

// Errors: an evaluation error the semantics defines, or "the documentation does not say".
type EvalError struct{ Msg string }

func (e *EvalError) Error() string { return "eval error: " + e.Msg }

type Unspecified struct{ Why string }

func (e *Unspecified) Error() string { return "unspecified: " + e.Why }

func evalErr(f string, a ...interface{}) error { return &EvalError{fmt.Sprintf(f, a...)} }
func unspec(f string, a ...interface{}) error  { return &Unspecified{fmt.Sprintf(f, a...)} }

func IsUnspec(err error) bool { _, ok := err.(*Unspecified); return ok }
func IsEvalErr(err error) bool { _, ok := err.(*EvalError); return ok }

type Env map[string]*V

// Misses counts, during the evaluations since it was last reset, the
// traversals that found nothing to read: a key missing from a map, an index
// past the end of a sequence, any traversal of null. (yq creates the missing
// entry on such a read in writable contexts and yields nothing instead of null
// in read-only ones; clients use the counter to attribute a divergence to that
// one known finding and to nothing else.)
var Misses int

// MultiCtx counts, since it was last reset, the operator evaluations whose list of current nodes
// held two or more nodes. eval-all pairs and collects document roots across the whole list
// (that is how `select(fi == 0) * select(fi == 1)` merges two files), so an evaluation in that
// mode is only judged by this per-node reference when the count stayed zero.
var MultiCtx int

func (e Env) With(k string, v *V) Env {
	n := Env{}
	for a, b := range e {
		n[a] = b
	}
	n[k] = v
	return n
}

// ---------------------------------------------------------------------------
// printing

func ip(i int) *int { return &i }

func needsParens(e *E) bool {
	switch e.Op {
	case "pipe", "union", "bin", "as", "reduce":
		return true
	}
	return false
}

func wrap(e *E) string {
	if needsParens(e) {
		return "(" + Print(e) + ")"
	}
	return Print(e)
}

// QuoteYq renders a yq string literal.
func QuoteYq(s string) string {
	var b strings.Builder
	b.WriteByte('"')
	for _, r := range s {
		switch r {
		case '"':
			b.WriteString(`\"`)
		case '\\':
			b.WriteString(`\\`)
		case '\n':
			b.WriteString(`\n`)
		case '\t':
			b.WriteString(`\t`)
		default:
			b.WriteRune(r)
		}
	}
	b.WriteByte('"')
	return b.String()
}

func litText(lit string) string {
	v, err := model.ParseJSON(lit)
	if err != nil {
		return lit
	}
	switch v.K {
	case model.Str:
		return QuoteYq(v.S)
	case model.Seq:
		if len(v.Elem) == 0 {
			return "[]"
		}
	case model.Map:
		if len(v.Keys) == 0 {
			return "{}"
		}
	}
	return lit
}

// Print renders the canonical yq spelling.
func Print(e *E) string {
	switch e.Op {
	case "self":
		return "."
	case "key":
		if e.J == nil && simpleKey.MatchString(e.S) {
			return "." + e.S
		}
		return ".[" + QuoteYq(e.S) + "]"
	case "idx":
		return fmt.Sprintf(".[%d]", *e.I)
	case "splat":
		return ".[]"
	case "slice":
		a, b := "", ""
		if e.I != nil {
			a = strconv.Itoa(*e.I)
		}
		if e.J != nil {
			b = strconv.Itoa(*e.J)
		}
		return ".[" + a + ":" + b + "]"
	case "rdesc":
		return ".."
	case "pipe":
		// a pipe marked J is written as a postfix chain (.a[0], .a.b, .a[], .a[1:3]) when its operands allow it
		if e.J != nil && postfixBase(e.A[0]) {
			if sfx, ok := postfixStep(e.A[1]); ok {
				return Print(e.A[0]) + sfx
			}
		}
		// in yq `,` binds looser than `|`: a union (and a binding, whose scope runs
		// to the right) must be bracketed when it is an operand of a pipe
		return wrapP(e.A[0]) + " | " + wrapP(e.A[1])
	case "union":
		return wrapU(e.A[0]) + ", " + wrapU(e.A[1])
	case "lit":
		if e.S == "hex" {
			if v, err := model.ParseJSON(e.Lit); err == nil && v.K == model.Int && v.I.Sign() >= 0 && v.I.IsInt64() {
				return fmt.Sprintf("0x%X", v.I.Int64())
			}
		}
		return litText(e.Lit)
	case "collect":
		if len(e.A) == 0 {
			return "[]"
		}
		return "[" + Print(e.A[0]) + "]"
	case "object":
		var parts []string
		for i, k := range e.KS {
			parts = append(parts, QuoteYq(k)+": "+wrap(e.A[i]))
		}
		return "{" + strings.Join(parts, ", ") + "}"
	case "bin":
		return wrap(e.A[0]) + " " + e.S + " " + wrap(e.A[1])
	case "not", "length", "keys", "to_entries", "from_entries", "reverse", "unique", "any", "all", "sort":
		return e.Op
	case "flatten":
		if e.I != nil {
			return fmt.Sprintf("flatten(%d)", *e.I)
		}
		return "flatten"
	case "select", "map", "with_entries", "group_by", "any_c", "all_c", "contains", "sort_by", "filter":
		return e.Op + "(" + Print(e.A[0]) + ")"
	case "has":
		if e.I != nil {
			return fmt.Sprintf("has(%d)", *e.I)
		}
		return "has(" + QuoteYq(e.S) + ")"
	case "join", "split":
		return e.Op + "(" + QuoteYq(e.S) + ")"
	case "as":
		return wrapAs(e.A[0]) + " as $" + e.S + " | " + wrapP(e.A[1])
	case "var":
		return "$" + e.S
	case "reduce":
		return wrapAs(e.A[0]) + " as $" + e.S + " ireduce (" + Print(e.A[1]) + "; " + Print(e.A[2]) + ")"
	}
	return "?" + e.Op
}

// postfixStep: the spelling of a traversal step written directly after a path.
func postfixStep(e *E) (string, bool) {
	switch e.Op {
	case "key", "idx", "splat", "slice":
		p := Print(e)
		if strings.HasPrefix(p, ".[") {
			return p[1:], true // [0], ["k"], [], [1:3]
		}
		return p, true // .k
	}
	return "", false
}

// postfixBase: expressions a traversal step can be appended to.
func postfixBase(e *E) bool {
	switch e.Op {
	case "key", "idx", "splat", "slice":
		return true
	case "pipe":
		if e.J == nil || !postfixBase(e.A[0]) {
			return false
		}
		_, ok := postfixStep(e.A[1])
		return ok
	}
	return false
}

// MarkPostfix marks the pipes of e that can be written as postfix chains, as choose decides.
func MarkPostfix(e *E, choose func() bool) {
	if e == nil {
		return
	}
	for _, a := range e.A {
		MarkPostfix(a, choose)
	}
	if e.Op == "pipe" && len(e.A) == 2 && postfixBase(e.A[0]) {
		if _, ok := postfixStep(e.A[1]); ok && choose() {
			e.J = new(int)
		}
	}
}

// MarkHex spells non-negative integer literals in hex where only the value can matter: the operands of the
// arithmetic operator that produces the final results (yq keeps the spelling of the left operand in its result and
// compares text in ==, unique, contains, ...; the results themselves are read as JSON numbers).
func MarkHex(e *E, choose func() bool) {
	for e != nil && e.Op == "pipe" && len(e.A) == 2 {
		e = e.A[1]
	}
	if e == nil || e.Op != "bin" || len(e.A) != 2 {
		return
	}
	switch e.S {
	case "+", "-", "*", "/", "%", "<", "<=", ">", ">=":
	default:
		return
	}
	for _, a := range e.A {
		if a.Op == "lit" && choose() {
			a.S = "hex"
		}
	}
}

func wrapP(e *E) string {
	if e.Op == "union" || e.Op == "as" || e.Op == "reduce" || e.Op == "bin" {
		return "(" + Print(e) + ")"
	}
	return Print(e)
}

func wrapU(e *E) string {
	if e.Op == "pipe" || e.Op == "as" || e.Op == "reduce" || e.Op == "bin" || e.Op == "union" {
		return "(" + Print(e) + ")"
	}
	return Print(e)
}

func wrapAs(e *E) string {
	if needsParens(e) {
		return "(" + Print(e) + ")"
	}
	return Print(e)
}

// Ops counts operator applications (for the non-triviality rule).
func (e *E) Ops() int {
	n := 1
	if e.Op == "self" || e.Op == "lit" || e.Op == "var" {
		n = 0
	}
	for _, a := range e.A {
		n += a.Ops()
	}
	return n
}

// Walk visits every node.
func (e *E) Walk(f func(*E)) {
	f(e)
	for _, a := range e.A {
		a.Walk(f)
	}
}

// ---------------------------------------------------------------------------
// evaluation

func Truthy(v *V) bool { return !(v.K == model.Null || (v.K == model.Bool && !v.B)) }

// Eval evaluates e over the whole ordered context.
func Eval(e *E, ctx []*V, env Env) ([]*V, error) {
	out, err := eval1(e, ctx, env)
	for _, v := range out {
		if v == nil {
			// an inconsistency of the reference itself: decline rather than judge with it
			return nil, unspec("the reference yields a nil value for %s", e.Op)
		}
	}
	return out, err
}

func eval1(e *E, ctx []*V, env Env) ([]*V, error) {
	if len(ctx) >= 2 {
		MultiCtx++
	}
	if len(ctx) == 0 {
		switch e.Op {
		case "lit", "var", "collect", "object", "bin", "as", "reduce":
			return nil, unspec("constructor or operator evaluated on an empty context")
		}
	}
	switch e.Op {
	case "self":
		return ctx, nil
	case "pipe":
		mid, err := Eval(e.A[0], ctx, env)
		if err != nil {
			return nil, err
		}
		return Eval(e.A[1], mid, env)
	case "union":
		l, err := Eval(e.A[0], ctx, env)
		if err != nil {
			return nil, err
		}
		r, err := Eval(e.A[1], ctx, env)
		if err != nil {
			return nil, err
		}
		return append(append([]*V{}, l...), r...), nil
	case "lit":
		v, err := model.ParseJSON(e.Lit)
		if err != nil {
			return nil, unspec("bad literal %q", e.Lit)
		}
		n := len(ctx)
		if n == 0 {
			n = 1
		}
		out := make([]*V, n)
		for i := range out {
			out[i] = v.Copy()
		}
		return out, nil
	case "var":
		v, ok := env[e.S]
		if !ok || v == nil {
			// (nil: the generator's placeholder for a binding over an empty stream, whose body never runs)
			return nil, unspec("unbound variable $%s", e.S)
		}
		if len(ctx) != 1 {
			return nil, unspec("variable read in a context of several nodes")
		}
		n := len(ctx)
		if n == 0 {
			n = 1
		}
		out := make([]*V, n)
		for i := range out {
			out[i] = v
		}
		return out, nil
	case "as":
		var out []*V
		for _, c := range ctx {
			ls, err := Eval(e.A[0], []*V{c}, env)
			if err != nil {
				return nil, err
			}
			if len(ls) == 0 {
				return nil, unspec("variable bound to an empty stream")
			}
			for _, l := range ls {
				r, err := Eval(e.A[1], []*V{c}, env.With(e.S, l))
				if err != nil {
					return nil, err
				}
				out = append(out, r...)
			}
		}
		return out, nil
	case "reduce":
		if len(ctx) != 1 {
			return nil, unspec("reduce over a context of several nodes")
		}
		items, err := Eval(e.A[0], ctx, env)
		if err != nil {
			return nil, err
		}
		acc, err := Eval(e.A[1], ctx[:min(1, len(ctx))], env)
		if err != nil {
			return nil, err
		}
		if len(acc) != 1 {
			return nil, unspec("reduce initial value is not a single value")
		}
		for _, it := range items {
			acc, err = Eval(e.A[2], acc, env.With(e.S, it))
			if err != nil {
				return nil, err
			}
			if len(acc) != 1 {
				return nil, unspec("reduce block did not yield exactly one value")
			}
		}
		return acc, nil
	case "bin":
		return evalBin(e, ctx, env)
	case "collect":
		if len(e.A) == 0 {
			// `[]` is a literal
			n := len(ctx)
			if n == 0 {
				n = 1
			}
			out := make([]*V, n)
			for i := range out {
				out[i] = model.NewSeq()
			}
			return out, nil
		}
		if len(ctx) == 0 {
			r, err := Eval(e.A[0], nil, env)
			if err != nil {
				return nil, err
			}
			return []*V{model.NewSeq(r...)}, nil
		}
		var out []*V
		for _, c := range ctx {
			r, err := Eval(e.A[0], []*V{c}, env)
			if err != nil {
				return nil, err
			}
			out = append(out, model.NewSeq(r...))
		}
		return out, nil
	case "object":
		return evalObject(e, ctx, env)
	case "select":
		var out []*V
		for _, c := range ctx {
			r, err := Eval(e.A[0], []*V{c}, env)
			if err != nil {
				return nil, err
			}
			for _, x := range r {
				if Truthy(x) {
					out = append(out, c)
					break
				}
			}
		}
		return out, nil
	case "map":
		var out []*V
		for _, c := range ctx {
			if c.K != model.Seq {
				return nil, unspec("map on %v", c.K)
			}
			r, err := Eval(e.A[0], c.Elem, env)
			if err != nil {
				return nil, err
			}
			out = append(out, model.NewSeq(r...))
		}
		return out, nil
	case "filter":
		var out []*V
		for _, c := range ctx {
			if c.K != model.Seq {
				return nil, unspec("filter on %v", c.K)
			}
			res := model.NewSeq()
			for _, el := range c.Elem {
				r, err := Eval(e.A[0], []*V{el}, env)
				if err != nil {
					return nil, err
				}
				for _, x := range r {
					if Truthy(x) {
						res.Elem = append(res.Elem, el)
						break
					}
				}
			}
			out = append(out, res)
		}
		return out, nil
	case "sort", "sort_by":
		var out []*V
		for _, c := range ctx {
			if c.K != model.Seq {
				return nil, unspec("%s on %v", e.Op, c.K)
			}
			type kv struct{ k, v *V }
			var items []kv
			for _, el := range c.Elem {
				k := el
				if e.Op == "sort_by" {
					r, err := Eval(e.A[0], []*V{el}, env)
					if err != nil {
						return nil, err
					}
					if len(r) != 1 {
						return nil, unspec("sort key is not a single value")
					}
					k = r[0]
				}
				items = append(items, kv{k, el})
			}
			// the documentation defines the order of same-type scalars only
			for i := range items {
				a, b := items[0].k, items[i].k
				if !a.IsScalar() || !b.IsScalar() || !(a.K == b.K || (a.IsNumber() && b.IsNumber())) || a.K == model.Bool || a.K == model.Null {
					return nil, unspec("sort keys of mixed or unordered types")
				}
				if b.K == model.Str && looksLikeDate(b.S) {
					return nil, unspec("string that may be read as a date")
				}
			}
			sort.SliceStable(items, func(i, j int) bool {
				a, b := items[i].k, items[j].k
				if a.IsNumber() {
					return a.Rat().Cmp(b.Rat()) < 0
				}
				return a.S < b.S
			})
			res := model.NewSeq()
			for _, it := range items {
				res.Elem = append(res.Elem, it.v)
			}
			out = append(out, res)
		}
		return out, nil
	case "with_entries":
		var out []*V
		for _, c := range ctx {
			ents, err := toEntries(c)
			if err != nil {
				return nil, err
			}
			r, err := Eval(e.A[0], ents.Elem, env)
			if err != nil {
				return nil, err
			}
			m, err := fromEntries(model.NewSeq(r...))
			if err != nil {
				return nil, err
			}
			out = append(out, m)
		}
		return out, nil
	case "group_by":
		var out []*V
		for _, c := range ctx {
			if c.K != model.Seq {
				return nil, unspec("group_by on %v", c.K)
			}
			var keys []*V
			var groups []*V
			for _, el := range c.Elem {
				r, err := Eval(e.A[0], []*V{el}, env)
				if err != nil {
					return nil, err
				}
				if len(r) != 1 || !r[0].IsScalar() {
					return nil, unspec("group_by key is not one scalar")
				}
				k := r[0]
				found := -1
				for i, kk := range keys {
					if kk.K != k.K && !(kk.IsNumber() && k.IsNumber()) {
						if scalarText(kk) == scalarText(k) {
							return nil, unspec("group_by keys equal as text but of different type")
						}
						continue
					}
					if kk.IsNumber() && k.IsNumber() && kk.K != k.K && model.Equal(kk, k) {
						return nil, unspec("group_by int and float keys of equal value")
					}
					if model.Equal(kk, k) {
						found = i
						break
					}
				}
				if found < 0 {
					keys = append(keys, k)
					groups = append(groups, model.NewSeq(el))
				} else {
					groups[found].Elem = append(groups[found].Elem, el)
				}
			}
			out = append(out, model.NewSeq(groups...))
		}
		return out, nil
	case "any_c", "all_c":
		var out []*V
		for _, c := range ctx {
			if c.K != model.Seq {
				return nil, unspec("%s on %v", e.Op, c.K)
			}
			res := e.Op == "all_c"
			for _, el := range c.Elem {
				r, err := Eval(e.A[0], []*V{el}, env)
				if err != nil {
					if res != (e.Op == "all_c") && !IsUnspec(err) {
						return nil, unspec("error after the outcome of %s was already decided", e.Op)
					}
					return nil, err
				}
				if len(r) == 0 {
					// documented as jq's any(cond) / all(cond): an element for which the condition yields
					// nothing contributes no verdict
					continue
				}
				if len(r) != 1 {
					return nil, unspec("condition with %d results", len(r))
				}
				if e.Op == "any_c" && Truthy(r[0]) {
					res = true
				}
				if e.Op == "all_c" && !Truthy(r[0]) {
					res = false
				}
			}
			out = append(out, model.NewBool(res))
		}
		return out, nil
	case "contains":
		var out []*V
		for _, c := range ctx {
			r, err := Eval(e.A[0], []*V{c}, env)
			if err != nil {
				return nil, err
			}
			for _, x := range r {
				b, err := contains(c, x)
				if err != nil {
					return nil, err
				}
				out = append(out, model.NewBool(b))
			}
		}
		return out, nil
	}
	// per-node operators
	var out []*V
	for _, c := range ctx {
		r, err := evalNode(e, c)
		if err != nil {
			return nil, err
		}
		out = append(out, r...)
	}
	return out, nil
}

func min(a, b int) int {
	if a < b {
		return a
	}
	return b
}

func scalarText(v *V) string {
	switch v.K {
	case model.Null:
		return "null"
	case model.Bool:
		return strconv.FormatBool(v.B)
	case model.Int:
		return v.I.String()
	case model.Float:
		return model.FormatFloat(v.F)
	case model.Str:
		return v.S
	}
	return ""
}

func evalNode(e *E, c *V) ([]*V, error) {
	switch e.Op {
	case "key":
		switch c.K {
		case model.Map:
			if strings.ContainsAny(e.S, "*?") {
				return nil, unspec("glob characters in key")
			}
			if v, ok := c.Get(e.S); ok {
				return []*V{v}, nil
			}
			Misses++
			return []*V{model.NewNull()}, nil
		case model.Null:
			Misses++
			return []*V{model.NewNull()}, nil
		case model.Seq:
			return nil, evalErr("cannot index array with %q", e.S)
		}
		return nil, unspec("key traversal into a %v", c.K)
	case "idx":
		switch c.K {
		case model.Seq:
			i := *e.I
			n := len(c.Elem)
			if i < 0 {
				i += n
				if i < 0 {
					return nil, evalErr("index out of range")
				}
			}
			if i >= n {
				Misses++
				return []*V{model.NewNull()}, nil
			}
			return []*V{c.Elem[i]}, nil
		case model.Null:
			if *e.I < 0 {
				return nil, unspec("negative index into null")
			}
			Misses++
			return []*V{model.NewNull()}, nil
		}
		return nil, unspec("index traversal into a %v", c.K)
	case "splat":
		switch c.K {
		case model.Seq:
			return c.Elem, nil
		case model.Map:
			return c.Vals, nil
		case model.Null:
			Misses++
		}
		return nil, nil
	case "slice":
		if c.K != model.Seq {
			return nil, unspec("slice of a %v", c.K)
		}
		n := len(c.Elem)
		from, to := 0, n
		if e.I != nil {
			from = *e.I
		}
		if e.J != nil {
			to = *e.J
		}
		if from < 0 {
			from += n
			if from < 0 {
				from = 0
			}
		}
		if to < 0 {
			to += n
			if to < 0 {
				to = 0
			}
		}
		if to > n {
			to = n
		}
		if from > to {
			from = to
		}
		return []*V{model.NewSeq(c.Elem[from:to]...)}, nil
	case "rdesc":
		var out []*V
		c.Walk(func(x *V) { out = append(out, x) })
		return out, nil
	case "not":
		return []*V{model.NewBool(!Truthy(c))}, nil
	case "length":
		switch c.K {
		case model.Seq:
			return []*V{model.NewInt(int64(len(c.Elem)))}, nil
		case model.Map:
			return []*V{model.NewInt(int64(len(c.Keys)))}, nil
		case model.Null:
			return []*V{model.NewInt(0)}, nil
		case model.Str:
			for i := 0; i < len(c.S); i++ {
				if c.S[i] >= 0x80 {
					return nil, unspec("length of a non-ASCII string")
				}
			}
			return []*V{model.NewInt(int64(len(c.S)))}, nil
		}
		return nil, unspec("length of a %v", c.K)
	case "keys":
		switch c.K {
		case model.Map:
			out := model.NewSeq()
			for _, k := range c.Keys {
				out.Elem = append(out.Elem, model.NewStr(k))
			}
			return []*V{out}, nil
		case model.Seq:
			out := model.NewSeq()
			for i := range c.Elem {
				out.Elem = append(out.Elem, model.NewInt(int64(i)))
			}
			return []*V{out}, nil
		}
		return nil, evalErr("cannot get keys of %v", c.K)
	case "has":
		switch c.K {
		case model.Map:
			if e.I != nil {
				return nil, unspec("has(int) on a map")
			}
			_, ok := c.Get(e.S)
			return []*V{model.NewBool(ok)}, nil
		case model.Seq:
			if e.I == nil {
				return nil, unspec("has(string) on a sequence")
			}
			if *e.I < 0 {
				return nil, unspec("has(negative index)")
			}
			return []*V{model.NewBool(*e.I < len(c.Elem))}, nil
		}
		return nil, unspec("has on a %v", c.K)
	case "to_entries":
		v, err := toEntries(c)
		if err != nil {
			return nil, err
		}
		return []*V{v}, nil
	case "from_entries":
		v, err := fromEntries(c)
		if err != nil {
			return nil, err
		}
		return []*V{v}, nil
	case "reverse":
		if c.K != model.Seq {
			return nil, evalErr("reverse of a %v", c.K)
		}
		out := model.NewSeq()
		for i := len(c.Elem) - 1; i >= 0; i-- {
			out.Elem = append(out.Elem, c.Elem[i])
		}
		return []*V{out}, nil
	case "unique":
		if c.K != model.Seq {
			return nil, unspec("unique of a %v", c.K)
		}
		out := model.NewSeq()
		for _, el := range c.Elem {
			if !el.IsScalar() {
				return nil, unspec("unique over containers")
			}
			dup := false
			for _, o := range out.Elem {
				if o.K == el.K && model.Equal(o, el) {
					dup = true
					break
				}
				if o.K != el.K && scalarText(o) == scalarText(el) {
					return nil, unspec("unique: values equal as text but of different type")
				}
				if o.K != el.K && o.IsNumber() && el.IsNumber() && model.Equal(o, el) {
					return nil, unspec("unique: int and float of equal value")
				}
			}
			if !dup {
				out.Elem = append(out.Elem, el)
			}
		}
		return []*V{out}, nil
	case "flatten":
		if c.K != model.Seq {
			return nil, evalErr("flatten of a %v", c.K)
		}
		depth := -1
		if e.I != nil {
			depth = *e.I
		}
		out := model.NewSeq()
		var fl func(x *V, d int)
		fl = func(x *V, d int) {
			for _, el := range x.Elem {
				if el.K == model.Seq && d != 0 {
					fl(el, d-1)
				} else {
					out.Elem = append(out.Elem, el)
				}
			}
		}
		fl(c, depth)
		return []*V{out}, nil
	case "any", "all":
		if c.K != model.Seq {
			return nil, evalErr("%s of a %v", e.Op, c.K)
		}
		// (yq stops at the first deciding element; elements are plain values, so laziness is unobservable here)
		res := e.Op == "all"
		for _, el := range c.Elem {
			if e.Op == "any" && Truthy(el) {
				res = true
			}
			if e.Op == "all" && !Truthy(el) {
				res = false
			}
		}
		return []*V{model.NewBool(res)}, nil
	case "join":
		if c.K != model.Seq {
			return nil, evalErr("join of a %v", c.K)
		}
		var parts []string
		for _, el := range c.Elem {
			switch el.K {
			case model.Str:
				parts = append(parts, el.S)
			case model.Int:
				parts = append(parts, el.I.String())
			default:
				return nil, unspec("join of a %v element", el.K)
			}
		}
		return []*V{model.NewStr(strings.Join(parts, e.S))}, nil
	case "split":
		if c.K != model.Str {
			return nil, unspec("split of a %v", c.K)
		}
		if c.S == "" {
			return nil, unspec("split of the empty string")
		}
		if e.S == "" {
			return nil, unspec("split by the empty string")
		}
		out := model.NewSeq()
		for _, p := range strings.Split(c.S, e.S) {
			out.Elem = append(out.Elem, model.NewStr(p))
		}
		return []*V{out}, nil
	}
	return nil, unspec("operator %s not in the reference", e.Op)
}

func toEntries(c *V) (*V, error) {
	out := model.NewSeq()
	switch c.K {
	case model.Map:
		for i, k := range c.Keys {
			out.Elem = append(out.Elem, model.NewMap().Set("key", model.NewStr(k)).Set("value", c.Vals[i]))
		}
	case model.Seq:
		for i, el := range c.Elem {
			out.Elem = append(out.Elem, model.NewMap().Set("key", model.NewInt(int64(i))).Set("value", el))
		}
	default:
		return nil, unspec("to_entries of a %v", c.K)
	}
	return out, nil
}

func fromEntries(c *V) (*V, error) {
	if c.K != model.Seq {
		return nil, unspec("from_entries of a %v", c.K)
	}
	out := model.NewMap()
	for _, el := range c.Elem {
		if el.K != model.Map {
			return nil, unspec("from_entries element is a %v", el.K)
		}
		k, ok1 := el.Get("key")
		v, ok2 := el.Get("value")
		if !ok1 || !ok2 || len(el.Keys) != 2 {
			return nil, unspec("from_entries element without exactly key and value")
		}
		var ks string
		switch k.K {
		case model.Str:
			ks = k.S
		default:
			return nil, unspec("from_entries with a %v key", k.K)
		}
		if _, dup := out.Get(ks); dup {
			return nil, unspec("from_entries with duplicate keys")
		}
		out.Set(ks, v)
	}
	return out, nil
}

func contains(a, b *V) (bool, error) {
	switch {
	case a.K == model.Map && b.K == model.Map:
		for i, k := range b.Keys {
			av, ok := a.Get(k)
			if !ok {
				return false, nil
			}
			r, err := contains(av, b.Vals[i])
			if err != nil || !r {
				return r, err
			}
		}
		return true, nil
	case a.K == model.Seq && b.K == model.Seq:
		for _, eb := range b.Elem {
			found := false
			for _, ea := range a.Elem {
				if ea.K != eb.K {
					continue
				}
				r, err := contains(ea, eb)
				if err != nil {
					return false, err
				}
				if r {
					found = true
					break
				}
			}
			if !found {
				// an element of another kind might "contain" it under rules the docs do not give
				for _, ea := range a.Elem {
					if ea.K != eb.K {
						return false, unspec("contains across kinds")
					}
				}
				return false, nil
			}
		}
		return true, nil
	case a.K == model.Str && b.K == model.Str:
		return strings.Contains(a.S, b.S), nil
	case a.K == model.Float && b.K == model.Float:
		// yq compares scalars by their text: 0.5 + 0.5 prints 1, which is not the text of 1.0
		return false, unspec("contains with floats")
	case a.K == b.K && a.IsScalar():
		return model.Equal(a, b), nil
	}
	return false, unspec("contains(%v, %v)", a.K, b.K)
}

// ---------------------------------------------------------------------------
// object construction

func evalObject(e *E, ctx []*V, env Env) ([]*V, error) {
	one := func(c []*V) ([]*V, error) {
		multi := -1
		vals := make([][]*V, len(e.A))
		for i, a := range e.A {
			r, err := Eval(a, c, env)
			if err != nil {
				return nil, err
			}
			if len(r) == 0 {
				return nil, unspec("object entry with no value")
			}
			if len(r) > 1 {
				if multi >= 0 {
					return nil, unspec("object with more than one multi-valued entry")
				}
				multi = i
			}
			vals[i] = r
		}
		seen := map[string]bool{}
		for _, k := range e.KS {
			if seen[k] {
				return nil, unspec("object literal with duplicate keys")
			}
			seen[k] = true
		}
		n := 1
		if multi >= 0 {
			n = len(vals[multi])
		}
		var out []*V
		for j := 0; j < n; j++ {
			m := model.NewMap()
			for i, k := range e.KS {
				if i == multi {
					m.Set(k, vals[i][j])
				} else {
					m.Set(k, vals[i][0])
				}
			}
			out = append(out, m)
		}
		return out, nil
	}
	if len(e.A) == 0 {
		n := len(ctx)
		if n == 0 {
			n = 1
		}
		out := make([]*V, n)
		for i := range out {
			out[i] = model.NewMap()
		}
		return out, nil
	}
	if len(ctx) == 0 {
		return one(nil)
	}
	var out []*V
	for _, c := range ctx {
		r, err := one([]*V{c})
		if err != nil {
			return nil, err
		}
		out = append(out, r...)
	}
	return out, nil
}

// ---------------------------------------------------------------------------
// binary operators

func evalBin(e *E, ctx []*V, env Env) ([]*V, error) {
	var out []*V
	do := func(c []*V) error {
		L, err := Eval(e.A[0], c, env)
		if err != nil {
			return err
		}
		op := e.S
		// alternative and the boolean operators short-circuit on the left value
		if op == "//" {
			R, rerr := Eval(e.A[1], c, env)
			if len(L) == 0 {
				if rerr != nil {
					return rerr
				}
				out = append(out, R...)
				return nil
			}
			for _, l := range L {
				if Truthy(l) {
					out = append(out, l)
					continue
				}
				if rerr != nil {
					return rerr
				}
				if len(R) == 0 {
					out = append(out, l)
				}
				out = append(out, R...)
			}
			return nil
		}
		R, err := Eval(e.A[1], c, env)
		if err != nil {
			if (op == "and" || op == "or") && !IsUnspec(err) {
				return unspec("boolean operator whose right operand errors")
			}
			if len(L) == 0 && !IsUnspec(err) {
				return unspec("right operand errors while the left operand is empty")
			}
			return err
		}
		if op == "and" || op == "or" {
			if len(L) == 0 || len(R) != 1 {
				return unspec("boolean operator with an empty or multi-valued operand")
			}
			for _, l := range L {
				r := R[0]
				if op == "and" {
					out = append(out, model.NewBool(Truthy(l) && Truthy(r)))
				} else {
					out = append(out, model.NewBool(Truthy(l) || Truthy(r)))
				}
			}
			return nil
		}
		if op == "==" || op == "!=" {
			flip := op == "!="
			if len(L) == 0 && len(R) == 0 {
				out = append(out, model.NewBool(!flip))
				return nil
			}
			if len(L) == 0 {
				for _, r := range R {
					out = append(out, model.NewBool((r.K == model.Null) != flip))
				}
				return nil
			}
			if len(R) == 0 {
				for _, l := range L {
					out = append(out, model.NewBool((l.K == model.Null) != flip))
				}
				return nil
			}
		}
		if len(L) == 0 || len(R) == 0 {
			switch op {
			case "-", "*", "/", "%":
				return nil // no pairs
			}
			return unspec("operator %s with an empty operand", op)
		}
		for _, l := range L {
			for _, r := range R {
				if l == nil || r == nil {
					return unspec("nil operand value")
				}
				v, err := binValue(op, l, r)
				if err != nil {
					return err
				}
				out = append(out, v)
			}
		}
		return nil
	}
	if len(ctx) == 0 {
		if err := do(nil); err != nil {
			return nil, err
		}
		return out, nil
	}
	for _, c := range ctx {
		if err := do([]*V{c}); err != nil {
			return nil, err
		}
	}
	return out, nil
}

var maxI64 = big.NewInt(math.MaxInt64)
var minI64 = big.NewInt(math.MinInt64)

func fitsI64(i *big.Int) bool { return i.Cmp(maxI64) <= 0 && i.Cmp(minI64) >= 0 }

func numResult(f float64) (*V, error) {
	if math.IsNaN(f) || math.IsInf(f, 0) {
		return nil, unspec("non-finite arithmetic result")
	}
	if f == 0 && math.Signbit(f) {
		// yq prints -0, which its equality (by text) does not take for 0
		return nil, unspec("negative zero")
	}
	return model.NewFloat(f), nil
}

func binValue(op string, l, r *V) (*V, error) {
	switch op {
	case "==", "!=":
		flip := op == "!="
		var eq bool
		switch {
		case l.K == model.Null || r.K == model.Null:
			for _, x := range []*V{l, r} {
				if x.K == model.Str {
					switch strings.ToLower(x.S) {
					case "null", "~", "":
						return nil, unspec("equality of null and a string spelled like null")
					}
				}
			}
			eq = l.K == r.K
		case !l.IsScalar() && !r.IsScalar():
			return nil, unspec("equality of containers")
		case !l.IsScalar() || !r.IsScalar():
			eq = false // a container never equals a scalar
		case l.IsNumber() && r.IsNumber():
			if (l.K != r.K || l.K == model.Float) && model.Equal(l, r) {
				return nil, unspec("equality of numbers that may differ in spelling")
			}
			eq = model.Equal(l, r)
		case l.K != r.K:
			if scalarText(l) == scalarText(r) || strings.ContainsAny(scalarText(r), "*?") || strings.ContainsAny(scalarText(l), "*?") {
				return nil, unspec("equality across scalar types with equal text")
			}
			eq = false
		case l.K == model.Str:
			if strings.ContainsAny(r.S, "*?") || strings.ContainsAny(l.S, "*?") {
				return nil, unspec("glob characters in an equality operand")
			}
			eq = l.S == r.S
		default:
			eq = model.Equal(l, r)
		}
		return model.NewBool(eq != flip), nil
	case "<", "<=", ">", ">=":
		var c int
		switch {
		case l.IsNumber() && r.IsNumber():
			lr, rr := l.Rat(), r.Rat()
			if lr == nil || rr == nil {
				return nil, unspec("comparison of non-finite numbers")
			}
			if l.K != r.K {
				// yq compares through float64
				lf, rf := l.Num(), r.Num()
				if (lf < rf) != (lr.Cmp(rr) < 0) || (lf == rf) != (lr.Cmp(rr) == 0) {
					return nil, unspec("comparison where float64 rounding matters")
				}
			}
			c = lr.Cmp(rr)
		case l.K == model.Str && r.K == model.Str:
			if looksLikeDate(l.S) {
				return nil, unspec("string that may be read as a date")
			}
			c = strings.Compare(l.S, r.S)
		default:
			return nil, unspec("comparison of %v and %v", l.K, r.K)
		}
		var b bool
		switch op {
		case "<":
			b = c < 0
		case "<=":
			b = c <= 0
		case ">":
			b = c > 0
		case ">=":
			b = c >= 0
		}
		return model.NewBool(b), nil
	case "+":
		switch l.K {
		case model.Seq:
			out := model.NewSeq(l.Elem...)
			switch r.K {
			case model.Seq:
				out.Elem = append(append([]*V{}, l.Elem...), r.Elem...)
			case model.Null:
			case model.Map:
				return nil, unspec("sequence + map")
			default:
				out.Elem = append(append([]*V{}, l.Elem...), r)
			}
			return out, nil
		case model.Map:
			switch r.K {
			case model.Map:
				out := model.NewMap()
				for i, k := range l.Keys {
					out.Set(k, l.Vals[i])
				}
				for i, k := range r.Keys {
					out.Set(k, r.Vals[i])
				}
				return out, nil
			case model.Null:
				return nil, unspec("map + null")
			}
			return nil, evalErr("%v cannot be added to a map", r.K)
		case model.Null:
			return r, nil
		case model.Int, model.Float:
			if r.K == model.Map || r.K == model.Seq {
				if r.K == model.Map {
					return nil, evalErr("a map cannot be added to a number")
				}
				return nil, unspec("number + sequence")
			}
			if !r.IsNumber() {
				return nil, unspec("number + %v", r.K)
			}
			return arith(op, l, r)
		case model.Str:
			if r.K == model.Str {
				return model.NewStr(l.S + r.S), nil
			}
			if r.K == model.Map {
				return nil, evalErr("a map cannot be added to a string")
			}
			return nil, unspec("string + %v", r.K)
		}
		return nil, unspec("%v + %v", l.K, r.K)
	case "-":
		switch {
		case l.IsNumber() && r.IsNumber():
			return arith(op, l, r)
		case l.K == model.Seq && r.K == model.Seq:
			out := model.NewSeq()
			for _, el := range l.Elem {
				rm := false
				for _, x := range r.Elem {
					if !el.IsScalar() || !x.IsScalar() {
						return nil, unspec("sequence subtraction with container elements")
					}
					if el.K != x.K {
						if scalarText(el) == scalarText(x) || (el.IsNumber() && x.IsNumber()) {
							return nil, unspec("sequence subtraction across scalar types")
						}
						continue
					}
					if el.K == model.Float {
						return nil, unspec("sequence subtraction of floats")
					}
					if el.K == model.Str && (strings.ContainsAny(el.S, "*?") || strings.ContainsAny(x.S, "*?")) {
						return nil, unspec("glob characters")
					}
					if model.Equal(el, x) {
						rm = true
					}
				}
				if !rm {
					out.Elem = append(out.Elem, el)
				}
			}
			return out, nil
		case l.K == model.Str && r.K == model.Str:
			return nil, evalErr("strings cannot be subtracted")
		case l.K == model.Null:
			return nil, unspec("null - %v", r.K)
		case l.K == model.Map || r.K == model.Map:
			return nil, evalErr("maps cannot be subtracted")
		}
		return nil, unspec("%v - %v", l.K, r.K)
	case "*":
		switch {
		case l.IsNumber() && r.IsNumber():
			return arith(op, l, r)
		case l.K == model.Map && r.K == model.Map:
			return nil, unspec("merge is judged by C04")
		}
		return nil, unspec("%v * %v", l.K, r.K)
	case "/":
		switch {
		case l.IsNumber() && r.IsNumber():
			if r.Rat() == nil || r.Rat().Sign() == 0 {
				return nil, unspec("division by zero")
			}
			return arith(op, l, r)
		case l.K == model.Str && r.K == model.Str:
			if r.S == "" || l.S == "" {
				return nil, unspec("split by or of the empty string")
			}
			out := model.NewSeq()
			for _, p := range strings.Split(l.S, r.S) {
				out.Elem = append(out.Elem, model.NewStr(p))
			}
			return out, nil
		case l.K == model.Map || l.K == model.Seq:
			return nil, evalErr("%v cannot be divided", l.K)
		}
		return nil, unspec("%v / %v", l.K, r.K)
	case "%":
		switch {
		case l.IsNumber() && r.IsNumber():
			if r.Rat() == nil || r.Rat().Sign() == 0 {
				return nil, unspec("modulo by zero")
			}
			return arith(op, l, r)
		case l.K == model.Map || l.K == model.Seq:
			return nil, evalErr("%v cannot be used with modulo", l.K)
		}
		return nil, unspec("%v %% %v", l.K, r.K)
	}
	return nil, unspec("operator %s", op)
}

func looksLikeDate(s string) bool {
	if len(s) < 8 {
		return false
	}
	digits := 0
	for _, r := range s {
		if r >= '0' && r <= '9' {
			digits++
		}
	}
	return digits >= 6
}

func arith(op string, l, r *V) (*V, error) {
	if l.K == model.Int && r.K == model.Int {
		a, b := l.I, r.I
		if !fitsI64(a) || !fitsI64(b) {
			return nil, unspec("integer beyond 64 bit")
		}
		res := new(big.Int)
		switch op {
		case "+":
			res.Add(a, b)
		case "-":
			res.Sub(a, b)
		case "*":
			res.Mul(a, b)
		case "/":
			// documented (divide.md): "the result during division is calculated as a float", also when it divides evenly
			return numResult(float64(a.Int64()) / float64(b.Int64()))
		case "%":
			res.Rem(a, b)
		}
		if !fitsI64(res) {
			return nil, unspec("integer overflow")
		}
		return model.NewBig(res), nil
	}
	lf, rf := l.Num(), r.Num()
	if l.K == model.Int && !l.I.IsInt64() || r.K == model.Int && !r.I.IsInt64() {
		return nil, unspec("integer beyond 64 bit")
	}
	var f float64
	switch op {
	case "+":
		f = lf + rf
	case "-":
		f = lf - rf
	case "*":
		f = lf * rf
	case "/":
		f = lf / rf
	case "%":
		return nil, unspec("modulo of floats")
	}
	return numResult(f)
}

// SortStrings is a helper for clients.
func SortStrings(s []string) []string { sort.Strings(s); return s }
