#!/usr/bin/env python3
"""Regenerate /verif/MANIFEST.json from the table below (claimed checks) and properties.jsonl (everything else -> not_applicable)."""
import json, os
V='/verif'
props=[json.loads(l) for l in open(V+'/properties.jsonl')]
C={
 "C01": dict(tech="property-based testing (rapid): type-directed expression and document generators; oracle = independent reference interpreter written from the operator documentation",
      text="generated (document, core-fragment expression) pairs are evaluated by yq and by a reference interpreter that shares no code with yqlib; result lists must agree in order, count and value, and errors must coincide. One case in four evaluates its document with eval-all (judged where the list of current nodes never held two nodes: eval-all pairs roots across it). Exploration: counts, label distribution and Unspecified share are in the evidence.",
      note="trusted: the reference interpreter (ref/eval.go) as a reading of the docs; zones the docs leave open are Unspecified (counted, not judged); one open known finding (read auto-vivification) is matched only when the reference evaluation read something absent", ref="DESIGN.md 6/C01, 3.3"),
 "C03": dict(tech="property-based testing (rapid): documents x derivations (sort/reverse/slice/map/filter/+/-/unique/flatten) x selections; oracle = reference delete-by-identity model",
      text="for generated `f | del(s)` / del(s1,s2) programs the reference computes V=f(doc), the identities s selects in V, and V without exactly those nodes; yq's output must equal it (value and order).",
      note="trusted: ref.Eval for f and s; selections of the root and Unspecified predicates are skipped and counted", ref="DESIGN.md 6/C03"),
 "C11": dict(tech="property-based testing (rapid) with grammar, mutation and random-bytes generators over all format pairs; validity oracle (no panic, no hang); sample re-run through the binary",
      text="generated (expression, input, input format, output format, mode, format and printer flags) cases must end in a result or an error: recovered panics, fatal errors of the binary and watchdog hits (20 s, confirmed at 120 s) are violations. Absence of crash sites is not established; counts and outcome classes are in the evidence.",
      note="in-process recover() + binary sample; generator bound: sequence indices <= 255 next to dynamic indexing (also in properties input keys), repeat counts capped, no fan-out next to a self-evaluating eval (resource exhaustion by an explicitly requested size is not the crash class); inputs with a self-containing alias (rejected by the decoder since fix 9bdc188) are judged in a memory-limited subprocess, because losing that fix means unbounded recursion", ref="DESIGN.md 6/C11"),
}
m={"version":1,"setup_cmd":"./check setup",
 "hooks":{"guard":"verif","enable":"go build -tags verif (the driver builds the yq binary and the test binaries with -tags verif)","baseline_off_cmd":"cd /repo && go test -vet=off -count=1 ./...","source_commits":[],"add_only":True},
 "engines":[{"name":"rapid-harness","path":"harness/","serves_properties":sorted(C.keys()),"kind_free_text":"Go module; one test package per property driven by pgregory.net/rapid v1.3.0; ./check builds it against /repo's working tree (replace => /repo) and shards it by seed"}],
 "checks":[],"not_applicable":[]}
extra=V+'/tools/manifest_extra.json'
if os.path.exists(extra):
    C.update(json.load(open(extra)))
    m["engines"][0]["serves_properties"]=sorted(C.keys())
hooks=V+'/tools/hooks.json'
if os.path.exists(hooks):
    m["hooks"].update(json.load(open(hooks)))
for p in props:
    i=p['id']
    if i in C:
        c=C[i]
        m["checks"].append({"property_id":i,"quick_cmd":"./check %s quick"%i,"thorough_cmd":"./check %s thorough"%i,"evidence_file":"evidence/%s.json"%i,
          "replay_cmd_template":"./check %s replay {path}"%i,"engine":"rapid-harness",
          "level_claimed":{"category":c.get("level","exploration"),"text":c["text"],"design_ref":c["ref"]},"level_note":c["note"],"technique":c["tech"]})
    else:
        m["not_applicable"].append({"property_id":i,"reason":"not claimed yet: the check for this property is still under construction in this session (design in DESIGN.md section 6)"})
json.dump(m,open(V+'/MANIFEST.json','w'),indent=1)
print("claimed:",sorted(C.keys()))
