#!/usr/bin/env python3
"""Assemble /verif/seeded/<Cnn-i>/ from the raw sub-agent deliveries in seeded/_incoming (round 1) and
seeded/_incoming2 (round 2): patch.diff (the change as it applies to the current /repo; ported by hand where a
later fix: commit moved the code), original.diff (the delivery, when patch.diff is a port), the agent's
demonstration files, and meta.json. Verdicts come from seeded/RESULTS.tsv (hand-kept log) and, when present,
seeded/REVALIDATED.tsv (written by tools/reseed.sh on the current tree)."""
import json, os, shutil, glob, re, subprocess
V = os.path.dirname(os.path.dirname(os.path.abspath(__file__)))
S = os.path.join(V, "seeded")
props = {json.loads(l)["id"]: json.loads(l) for l in open(os.path.join(V, "properties.jsonl"))}
notes = {}
for l in open(os.path.join(S, "RESULTS.tsv")):
    f = l.rstrip("\n").split("\t")
    if len(f) >= 5:
        notes[(f[0], f[1])] = dict(verdict=f[2], tier=f[3], note=f[4])
reval = {}
rp = os.path.join(S, "REVALIDATED.tsv")
if os.path.exists(rp):
    for l in open(rp):
        f = l.rstrip("\n").split("\t")
        if len(f) >= 3:
            reval[f[0]] = dict(result=f[1], detail=f[2])

def applies(path):
    return subprocess.run(["git", "-C", "/repo", "apply", "--check", path], capture_output=True).returncode == 0

for rnd, inc in (("1", "_incoming"), ("2", "_incoming2"), ("3", "_incoming3"), ("4", "_incoming4"), ("5", "_incoming5"), ("6", "_incoming6")):
    base = os.path.join(S, inc)
    if not os.path.isdir(base):
        continue
    for p in sorted(os.listdir(base)):
        for i in ("1", "2", "3"):
            src = os.path.join(base, p, "change%s.diff" % i)
            if not os.path.exists(src):
                continue
            idx = str(int(i) + {"1": 0, "2": 2, "3": 4, "4": 6, "5": 9, "6": 12}[rnd])
            name = "%s-%s" % (p, idx)
            d = os.path.join(S, name)
            os.makedirs(d, exist_ok=True)
            patch = os.path.join(d, "patch.diff")
            ported = False
            if os.path.exists(patch) and open(patch).read() != open(src).read():
                ported = True
                shutil.copy(src, os.path.join(d, "original.diff"))
            else:
                shutil.copy(src, patch)
            for demo in glob.glob(os.path.join(base, p, "demo%s*" % i)):
                shutil.copy(demo, os.path.join(d, os.path.basename(demo)))
            # the agent's own description of this change
            nm = os.path.join(base, p, "notes.md")
            if os.path.exists(nm):
                shutil.copy(nm, os.path.join(d, "agent-notes.md"))
            n = notes.get((p, idx), {})
            meta = {
                "id": name, "property": p, "property_title": props[p]["title"], "round": int(rnd),
                "what": n.get("note", ""),
                "needs_to_manifest": "see agent-notes.md (section for change %s) and 'what'" % i,
                "patch_is_port_of_original": ported,
                "applies_to_current_tree": applies(patch),
                "verdict": n.get("verdict", "untested"),
                "ran": "tools/mutant.sh %s seeded/%s/patch.diff %s   (git -C /repo apply; ./check %s %s; git -C /repo reset --hard)" % (p, name, n.get("tier", "quick") if n.get("tier", "-") != "-" else "quick", p, n.get("tier", "quick") if n.get("tier", "-") != "-" else "quick"),
                "demonstration": sorted(os.path.basename(x) for x in glob.glob(os.path.join(d, "demo*"))),
            }
            if name in reval:
                meta["revalidated_on_current_tree"] = reval[name]
            json.dump(meta, open(os.path.join(d, "meta.json"), "w"), indent=1, ensure_ascii=False)
            print(name, meta["verdict"], "applies" if meta["applies_to_current_tree"] else "DOES-NOT-APPLY", "(port)" if ported else "")
