#!/bin/bash
# usage: tools/mutant.sh <Cnn> <patch.diff> [tier]   - apply a seeded change to /repo, run the check, undo the change
set -u
P=$1; D=$(realpath "$2"); T=${3:-quick}
cd /repo || exit 2
if [ -n "$(git status --porcelain)" ]; then echo "repo not clean"; exit 2; fi
git apply "$D" || { echo "patch does not apply"; git reset -q --hard HEAD; exit 3; }
go build ./... || { echo "does not build"; git reset -q --hard HEAD; exit 3; }
cd /verif && ./check "$P" "$T" > /verif/.work/mutant-$P.out 2>&1; rc=$?
cd /repo && git reset -q --hard HEAD && git status --porcelain | grep -v "^??"
grep -E "^(VIOLATION|OK|KNOWN)" /verif/.work/mutant-$P.out | cut -c1-300 | head -5
grep -E "^violation" /verif/.work/mutant-$P.out | cut -c1-400 | head -3
echo "exit=$rc"
