#!/bin/bash
# usage: tools/reseed.sh [tier] [ids...]  - run every seeded change (seeded/<Cnn-i>/patch.diff) against its check on the
# current tree and log the verdicts in seeded/REVALIDATED.tsv. Leaves /repo as it found it.
T=${1:-quick}; shift
cd /verif
ids=${@:-$(ls seeded | grep -E '^C[0-9]+-[0-9]+$')}
for id in $ids; do
  P=${id%%-*}
  # a change delivered for one property may belong to the check of another (seeded/<id>/check_with names it)
  [ -f seeded/$id/check_with ] && P=$(cat seeded/$id/check_with)
  out=$(tools/mutant.sh $P seeded/$id/patch.diff $T 2>&1)
  if echo "$out" | grep -q "^VIOLATION"; then r=caught
  elif echo "$out" | grep -q "patch does not apply"; then r=does-not-apply
  elif echo "$out" | grep -q "does not build"; then r=does-not-build
  elif echo "$out" | grep -q "^OK"; then r=missed
  else r=inconclusive; fi
  d=$(echo "$out" | grep -E "^violation" | head -1 | cut -c1-200 | tr '\t' ' ')
  grep -v -P "^$id\t" seeded/REVALIDATED.tsv 2>/dev/null > seeded/.rv.tmp; mv seeded/.rv.tmp seeded/REVALIDATED.tsv
  printf '%s\t%s\t%s\n' "$id" "$r" "$d" >> seeded/REVALIDATED.tsv
  echo "$id $r"
done
