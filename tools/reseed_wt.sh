#!/bin/bash
# usage: tools/reseed_wt.sh [tier] [ids...] - like reseed.sh, but applies each seeded change in a scratch worktree of
# /repo (outside /repo and /verif, removed at the end) and points the check at it with VERIF_REPO, so /repo stays
# untouched while it runs. Results go to seeded/REVALIDATED.tsv.
T=${1:-quick}; shift
cd /verif
W=/tmp/wt-reseed
git -C /repo worktree remove --force $W 2>/dev/null
git -C /repo worktree add --detach $W HEAD -q || exit 2
ids=${@:-$(ls seeded | grep -E '^C[0-9]+-[0-9]+$')}
for id in $ids; do
  P=${id%%-*}
  [ -f seeded/$id/check_with ] && P=$(cat seeded/$id/check_with)
  git -C $W checkout -q -- . ; git -C $W clean -fdq
  if ! git -C $W apply /verif/seeded/$id/patch.diff 2>/dev/null; then r=does-not-apply; d=""
  elif ! (cd $W && go build ./... 2>/dev/null); then r=does-not-build; d=""
  else
    out=$(VERIF_REPO=$W ./check $P $T 2>&1)
    if echo "$out" | grep -q "^VIOLATION"; then r=caught
    elif echo "$out" | grep -q "^OK"; then r=missed
    else r=inconclusive; fi
    d=$(echo "$out" | grep -E "^violation" | head -1 | cut -c1-200 | tr '\t' ' ')
  fi
  grep -v -P "^$id\t" seeded/REVALIDATED.tsv 2>/dev/null > seeded/.rv.tmp; mv seeded/.rv.tmp seeded/REVALIDATED.tsv
  printf '%s\t%s\t%s\n' "$id" "$r" "$d" >> seeded/REVALIDATED.tsv
  echo "$id $r"
done
git -C /repo worktree remove --force $W
