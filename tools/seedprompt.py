#!/usr/bin/env python3
"""Print the sub-agent brief for one property (only the property text is given, nothing from /verif's machinery)."""
import json, sys
pid = sys.argv[1]
# round 3 and later: a generic nudge away from the obvious core of the property (nothing about /verif is revealed)
extra = ""
if len(sys.argv) > 2 and sys.argv[2] == "wide":
    extra = " Look AWAY from the obvious core of the property: prefer flag / preference combinations, rarely used operators or operator flags, interactions between two operators, state that is kept between documents or files, unusual but valid input syntax, and code that only runs for one input or output format."
n_changes = "TWO"
files = "change1.diff, change2.diff"
demos = "demo1.* , demo2.*"
if len(sys.argv) > 2 and sys.argv[2] == "shared":
    # round 4: three changes, in code that several operators or formats share
    n_changes = "THREE"
    files = "change1.diff, change2.diff, change3.diff"
    demos = "demo1.* , demo2.* , demo3.*"
    extra = " Prefer changes in code that is SHARED by several operators or formats (pkg/yqlib/candidate_node.go, context.go, lib.go, data_tree_navigator.go, the lexer and expression parser, the printer and the evaluators, cmd/ flag plumbing) whose effect on THIS property is indirect, and boundary conditions (off-by-one, empty collection, first/last element, zero, negative numbers, very long input). Avoid the operator or file the property's title points at most directly."
if len(sys.argv) > 2 and sys.argv[2] == "edge":
    # round 5: three changes at value boundaries, in cross-document state, or in the command layer
    n_changes = "THREE"
    files = "change1.diff, change2.diff, change3.diff"
    demos = "demo1.* , demo2.* , demo3.*"
    extra = " Prefer changes whose effect depends on VALUES at a boundary (empty string, empty collection, zero, negative numbers, first/last element, an index exactly at the length, 64-bit limits, strings that look like another type, keys that look like numbers or patterns, unusual but valid spellings of a value), on the ORDER of documents / results or state kept between documents, files or results, or on the COMMAND LAYER (cmd/: flag defaults, format names and aliases, file-extension detection, stdin versus file arguments, eval versus eval-all wiring). At most one of the three may sit in the operator or file the property's title points at most directly."
if len(sys.argv) > 2 and sys.argv[2] == "paths":
    # round 6: three changes on rarely taken paths
    n_changes = "THREE"
    files = "change1.diff, change2.diff, change3.diff"
    demos = "demo1.* , demo2.* , demo3.*"
    extra = " Prefer RARELY TAKEN PATHS: error handling and what happens after a partial failure (second document / second file / second result fails), options and preferences of encoders and decoders other than the defaults, operators applied to results of other operators (derived, re-parented or copied nodes), documents that use YAML features beyond plain maps and lists (anchors, aliases, merge keys, tags, comments, multi-document streams, block scalars, empty values), and the differences between `eval` and `eval-all`. Read how the code under the property is CALLED, not only the code itself, and put at least one change in a caller."
p = [json.loads(l) for l in open('/verif/properties.jsonl') if json.loads(l)['id'] == pid][0]
wt = "/tmp/wt-%s" % pid
out = "/tmp/seed-%s" % pid
print(f"""You are helping to evaluate a test-suite's blind spots for the open-source project mikefarah/yq (a jq-like processor for YAML/JSON/XML/TOML/CSV/properties/Lua, written in Go). This is mutation-testing style work in a sealed sandbox: nothing you write is ever merged or shipped.

You have your OWN scratch git worktree of the repository at {wt} (detached HEAD). Work ONLY there and in {out} (create it). Never touch /repo or /verif, and do not read anything under /verif.

Shell environment for every command (no network in this sandbox):
  export GOPROXY=off GOSUMDB=off GOTOOLCHAIN=local
The project's test suite is:  cd {wt} && go test -vet=off -count=1 ./...   (takes a few seconds; it passes on the unchanged tree).

THE PROPERTY (id {pid}: {p['title']}):
{p['statement']}

It is meant to hold: {p['quantifier']['text']}

YOUR TASK: produce {n_changes} independent, realistic source changes to the yq code (each the kind of plausible regression/refactoring slip a maintainer could make - NOT an obvious sabotage) such that, for each change separately:
  1. the code still compiles, and the existing test suite STILL PASSES unchanged (run it and confirm; do not edit any *_test.go or golden files);
  2. the property above is BROKEN by the change;
  3. the breakage needs something specific to manifest - e.g. an unusual input shape, a multi-step sequence of operations, a particular fault/crash point or interleaving, a specific flag combination, or two cooperating code sites that each look fine alone - rather than something every ordinary use would expose at once. Prefer subtle over blatant: a change that breaks only some region of the input space is ideal. The changes should be in different code sites / mechanisms.{extra}
  4. you provide a demonstration that FAILS with the change applied and PASSES without it: either a Go test file (put a copy in {out}; it may be dropped into pkg/yqlib or cmd of the worktree to run) or a small shell script that builds the yq binary from a given tree (usage: demo.sh <repo-dir>) and exits non-zero when the property is violated. Verify both directions yourself (with the change: fails; without it - save the diff to a file, `git checkout -- .`, later `git apply` it again; do NOT use `git stash`, the stash is shared by all worktrees of the repository - passes).

Deliverables, in {out}/:
  {files}   - `git diff` output against the worktree's HEAD (source changes only, no test files), each applying cleanly with `git apply` to a clean checkout
  {demos}            - the demonstrations (Go test file or shell script), with a comment at the top saying how to run it
  notes.md                     - for each change: what it does, why the existing tests miss it, exactly what is needed for it to manifest, and the commands you ran with their observed results (with and without the change).
Leave the worktree clean (git checkout -- . ; remove any test files you dropped in) when you are done. Keep your final answer short: just list the files and one line per change.""")
